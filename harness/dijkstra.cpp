// C12 (Dijkstra distances and tree), C19 (scan bound), C17 (heap preconditions) for findGeodesicsDijkstra.
//   -DFAMILY=1 (directed): forward graphs i->j (i<j), source 0
//   -DUND=0/1 DirectedWeightedGraph / UndirectedWeightedGraph behind a counting wrapper; -DEMAX: most list entries in the graph
// make_heap / pop_heap are modelled at specification level (any arrangement the standard allows), so the result is shown for
// every conforming heap implementation, and pop_heap's precondition is checked for the comparator it is given.
#include "vh.h"
#if !defined(VERIF_MODEL) && defined(SPEC_HEAP)
#include "spec_heap.h" /* second-chance replay: the real code on a conforming heap that follows the solver's arrangement */
#endif
#include "BaseGraph/directed_weighted_graph.hpp"
#include "BaseGraph/undirected_weighted_graph.hpp"
#include "BaseGraph/algorithms/paths.hpp"
using namespace BaseGraph;
#ifndef UND
#define UND 0
#endif
#ifndef EMAX
#define EMAX 3
#endif
static size_t scans;
#if UND
struct G : UndirectedWeightedGraph {
    G(size_t n = 0) : UndirectedWeightedGraph(n) {}
    const Successors &getOutNeighbours(VertexIndex v) const { ++scans; return UndirectedWeightedGraph::getOutNeighbours(v); }
};
#else
struct G : DirectedWeightedGraph {
    G(size_t n = 0) : DirectedWeightedGraph(n) {}
    const Successors &getOutNeighbours(VertexIndex v) const { ++scans; return DirectedWeightedGraph::getOutNeighbours(v); }
};
#endif
static const double WP[6] = {0.0, 0.5, 1.0, 1.5, 2.0, 0.25};   // non-negative dyadics incl. 0; sums of < 8 of them are exact
#define LO(a, b) ((a) < (b) ? (a) : (b))
#define HI(a, b) ((a) < (b) ? (b) : (a))

extern "C" void harness() {
    const unsigned n = N;
    G g(n);
    unsigned C[NM][NM]; double W[NM][NM];
#if defined(FAMILY)
    // forward family on N vertices: every subset of the edges i->j (i<j), lists ascending, source 0 - the shapes in which a
    // vertex waiting in the queue has its tentative distance lowered through a vertex popped earlier (decrease-key)
    size_t cnt = 0;
    for (unsigned i = 0; i < NM; ++i) for (unsigned j = 0; j < NM; ++j) C[i][j] = 0;
    for (unsigned i = 0; i < NM; ++i) if (i < n) {
        unsigned vals[VH_LC]; unsigned len = 0;
        for (unsigned j = 0; j < NM; ++j) if (j > i && j < n && ndb()) { vals[len++] = j; C[i][j] = 1; }
        vh_list_set(g, i, vals, len); cnt += len;
    }
#elif UND
    size_t cnt = vh_build_undirected(g, n, C);
#else
    size_t cnt = vh_build_directed(g, n, C);
#endif
    g.edgeNumber = cnt;
    size_t E = 0; for (unsigned i = 0; i < NM; ++i) for (unsigned j = 0; j < NM; ++j) if (i < n && j < n) E += C[i][j];
    ASSUME(E <= EMAX);
    long double total = 0; bool zero = false;
    for (unsigned i = 0; i < NM; ++i) for (unsigned j = (UND ? i : 0); j < NM; ++j) if (i < n && j < n && C[i][j]) { double w = WP[nd(6)]; if (w == 0.0) zero = true; W[i][j] = w; if (UND) W[j][i] = w; vh_label_set(g, i, j, w); total += w; }
    g.totalWeight = total;
#ifdef FIXS
    const unsigned s = FIXS;
#else
    unsigned s = nd(n);
#endif
    // reachability by n rounds over the adjacency matrix
    unsigned reach[NM]; for (unsigned v = 0; v < NM; ++v) reach[v] = v == s;
    for (unsigned round = 1; round < NM; ++round) for (unsigned v = 0; v < NM; ++v) if (v < n && !reach[v]) for (unsigned u = 0; u < NM; ++u) if (u < n && reach[u] && C[u][v]) reach[v] = 1;
    scans = 0;
    auto r = algorithms::findGeodesicsDijkstra(g, s);
    auto &dist = r.first; auto &pred = r.second;
    CHECK(scans <= n + E + 1, "findGeodesicsDijkstra scans neighbourhoods at most V+E+1 times (non-negative weights)");
    CHECK(dist.size() == n && pred.size() == n, "one distance and one predecessor per vertex");
    CHECK(dist[s] == 0.0 && pred[s] == s, "the source is at distance 0 and is its own predecessor");
    unsigned u = nd(n), v = nd(n);
    const double inf = algorithms::BASEGRAPH_INFINITY;
    if (!reach[v]) { CHECK(dist[v] == inf && pred[v] == algorithms::BASEGRAPH_VERTEX_MAX, "an unreachable vertex is at +infinity and carries the sentinel"); REACH("unreachable vertex observed"); }
    else {
        CHECK(dist[v] != inf && dist[v] >= 0.0, "a reachable vertex has a finite distance");
        if (C[u][v] && reach[u]) CHECK(dist[v] <= dist[u] + W[u][v], "no edge can shorten a reported distance (the distances are a feasible potential)");
        if (v != s) {
            unsigned p = pred[v];
            CHECK(p < n && C[p][v] && reach[p], "the predecessor is joined to the vertex by an edge");
            if (p < n) CHECK(dist[v] == dist[p] + W[p][v], "dist[v] = dist[pred] + weight(pred, v) exactly");
            // the predecessor chain reaches the source within n-1 steps: together with the two conditions above this makes
            // dist[v] the length of an actual path that no path can beat, i.e. the minimum
            unsigned x = v; for (unsigned k = 1; k < NM; ++k) if (x != s && x < n) x = pred[x];
            CHECK(x == s, "following predecessors leads back to the source");
            if (zero) REACH("graph with a zero-weight edge");
            if (pred[v] != s) REACH("vertex reached through an intermediate vertex");
        }
    }
    REACH("end of harness");
}
