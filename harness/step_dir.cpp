// One inductive step of LabeledDirectedGraph<L> from an arbitrary valid state (DESIGN.md §4.1).
// Serves C01 (faithful set of ordered pairs), C03 (label lifetime, directed), C16 (forced duplicates, DUP>1).
//   -DLT=<label type> -DN=<vertices> -DNM=<matrix dim> -DOP=<mutator> -DOBS=<observer group> [-DDUP=<copies>]
#include "vh.h"
#include "BaseGraph/directed_graph.hpp"
#include <stdexcept>
using namespace BaseGraph;

#ifndef LT
#define LT 1
#endif
#if LT == 0
typedef NoLabel L;
#define LABELLED 0
#elif LT == 1
typedef int L;
#elif LT == 2
typedef unsigned char L;
#elif LT == 3
typedef double L;
#elif LT == 4
typedef std::string L;
#elif LT == 5
typedef UserLabel L;
#endif
#ifndef LABELLED
#define LABELLED 1
#endif
typedef LabeledDirectedGraph<L> G;

#define OP_ADD 0
#define OP_ADD_DEFAULT 1
#define OP_ADDREC 2
#define OP_REMOVE 3
#define OP_RMLOOPS 4
#define OP_RMVERTEX 5
#define OP_CLEAR 6
#define OP_RESIZE 7
#define OP_SETLABEL 8
#define OP_CTOR 9
#define OP_READD 10      /* -DRM=0..3: removal kind, then addEdge with a new label */
#define OP_ADDREC_DEFAULT 11
#define OP_FORCE_ADD 12  /* DUP>1 */
#define OP_DEDUP 13      /* DUP>1 */
#define OP_NONE 14       /* no step: observers on an arbitrary valid state */
#ifndef OP
#define OP OP_ADD
#endif
#ifndef OBS
#define OBS 0
#endif
#ifndef RM
#define RM 0
#endif

#if LABELLED
static L pick() { return LabDom<L>::pick(); }
#else
static L pick() { return L(); }
#endif

extern "C" void harness() {
    const unsigned n = N;
    unsigned n2 = n;                    // vertices after the step
    unsigned C[NM][NM]; L lab[NM][NM];
    size_t cnt = 0;
#if OP == OP_CTOR
    G g(n);
    for (unsigned i = 0; i < NM; ++i) for (unsigned j = 0; j < NM; ++j) C[i][j] = 0;
#else
    G g(n);
    cnt = vh_build_directed(g, n, C);
    g.edgeNumber = cnt;
#if LABELLED
    for (unsigned i = 0; i < NM; ++i) for (unsigned j = 0; j < NM; ++j) if (i < n && j < n && C[i][j]) { lab[i][j] = pick(); vh_label_set(g, i, j, lab[i][j]); }
#endif
#endif
    unsigned a = n ? nd(n) : 0, b = n ? nd(n) : 0;
    L l = pick();
    (void)a; (void)b; (void)l;

    // ------------------------------------------------------------------ the step and its specification
#if OP == OP_ADD || OP == OP_ADD_DEFAULT
    {
        ASSUME(n > 0);
        G before = g;
#if OP == OP_ADD
        g.addEdge(a, b, l);
#else
        l = L(); g.addEdge(a, b);
#endif
        if (C[a][b] == 0) { C[a][b] = 1; lab[a][b] = l; ++cnt; REACH("addEdge created a new edge"); }
        else { REACH("addEdge on an existing edge");
            CHECK(g.adjacencyList == before.adjacencyList && g.edgeNumber == before.edgeNumber && g.edgeLabels == before.edgeLabels && g.size == before.size, "re-adding an existing edge changes nothing"); }
    }
#elif OP == OP_ADDREC || OP == OP_ADDREC_DEFAULT
    ASSUME(n > 0);
#if OP == OP_ADDREC
    g.addReciprocalEdge(a, b, l);
#else
    l = L(); g.addReciprocalEdge(a, b);
#endif
    if (C[a][b] == 0) { C[a][b] = 1; lab[a][b] = l; ++cnt; }
    if (C[b][a] == 0) { C[b][a] = 1; lab[b][a] = l; ++cnt; REACH("addReciprocalEdge created the reverse edge"); }
#elif OP == OP_REMOVE
    {
        ASSUME(n > 0);
        G before = g;
        g.removeEdge(a, b);
        if (C[a][b]) { cnt -= C[a][b]; C[a][b] = 0; REACH("removeEdge removed an existing edge"); }
        else { REACH("removeEdge on an absent edge");
            CHECK(g.adjacencyList == before.adjacencyList && g.edgeNumber == before.edgeNumber && g.edgeLabels == before.edgeLabels && g.size == before.size, "removing an absent edge changes nothing"); }
    }
#elif OP == OP_RMLOOPS
    g.removeSelfLoops();
    for (unsigned i = 0; i < NM; ++i) if (i < n) { if (C[i][i]) REACH("removeSelfLoops removed a loop"); cnt -= C[i][i]; C[i][i] = 0; }
#elif OP == OP_RMVERTEX
    ASSUME(n > 0);
    g.removeVertexFromEdgeList(a);
    for (unsigned k = 0; k < NM; ++k) if (k < n) { if (C[a][k] && C[k][a] && k != a) REACH("removed vertex had in- and out-edges"); cnt -= C[a][k]; C[a][k] = 0; cnt -= C[k][a]; C[k][a] = 0; }
#elif OP == OP_CLEAR
    g.clearEdges();
    if (cnt > 1) REACH("clearEdges on a graph with several edges");
    for (unsigned i = 0; i < NM; ++i) for (unsigned j = 0; j < NM; ++j) C[i][j] = 0;
    cnt = 0;
#elif OP == OP_RESIZE
    n2 = n + nd(NM - n + 1);
    g.resize(n2);
    if (n2 > n && cnt > 0) REACH("resize grew a graph that has edges");
#elif OP == OP_SETLABEL
    {
        ASSUME(n > 0);
        G before = g;
        bool threw = false;
        try { g.setEdgeLabel(a, b, l); } catch (std::invalid_argument &) { threw = true; }
        if (C[a][b]) { CHECK(!threw, "setEdgeLabel on an existing edge succeeds"); lab[a][b] = l; REACH("setEdgeLabel relabelled an edge"); }
        else { CHECK(threw, "setEdgeLabel on a missing edge throws std::invalid_argument");
            CHECK(g.adjacencyList == before.adjacencyList && g.edgeNumber == before.edgeNumber && g.edgeLabels == before.edgeLabels, "a rejected setEdgeLabel changes nothing"); REACH("setEdgeLabel rejected"); }
    }
#elif OP == OP_CTOR
    // base case: the constructor's state is the empty graph on n vertices
#elif OP == OP_READD
    {
        ASSUME(n > 0); ASSUME(C[a][b]);
#if RM == 0
        g.removeEdge(a, b); cnt -= C[a][b]; C[a][b] = 0;
#elif RM == 1
        ASSUME(a == b); g.removeSelfLoops(); for (unsigned i = 0; i < NM; ++i) if (i < n) { cnt -= C[i][i]; C[i][i] = 0; }
#elif RM == 2
        { unsigned v = ndb() ? a : b; g.removeVertexFromEdgeList(v); for (unsigned k = 0; k < NM; ++k) if (k < n) { cnt -= C[v][k]; C[v][k] = 0; cnt -= C[k][v]; C[k][v] = 0; } }
#else
        g.clearEdges(); for (unsigned i = 0; i < NM; ++i) for (unsigned j = 0; j < NM; ++j) C[i][j] = 0; cnt = 0;
#endif
        g.addEdge(a, b, l); C[a][b] = 1; lab[a][b] = l; ++cnt;
        REACH("edge removed and re-created with a new label");
    }
#elif OP == OP_FORCE_ADD
    ASSUME(n > 0); ASSUME(C[a][b] < DUP);
    g.addEdge(a, b, l, true);
    if (C[a][b]) REACH("forced insertion of an existing edge");
    ++C[a][b]; lab[a][b] = l; ++cnt;
#elif OP == OP_DEDUP
    g.removeDuplicateEdges();
    for (unsigned i = 0; i < NM; ++i) for (unsigned j = 0; j < NM; ++j) if (i < n && j < n && C[i][j] > 1) { if (i == j) REACH("duplicate self-loop removed"); else REACH("duplicate edge removed"); cnt -= C[i][j] - 1; C[i][j] = 1; }
#endif

    // ------------------------------------------------------------------ observers on the post-state
    CHECK(g.getSize() == n2, "getSize is the vertex count");
    CHECK(g.adjacencyList.size() == n2, "one neighbour list per vertex");
    unsigned i = n2 ? nd(n2) : 0, j = n2 ? nd(n2) : 0;
#if OBS == 0
    CHECK(g.getEdgeNumber() == cnt, "getEdgeNumber counts the edges (one per copy)");
    if (n2 > 0) {
        CHECK(g.hasEdge(i, j) == (C[i][j] != 0), "hasEdge(i,j) iff the pair was added and not since removed");
#if LABELLED && !defined(NO_LABEL_CHECKS)
        CHECK(g.edgeLabels.count({i, j}) == (C[i][j] != 0 ? 1u : 0u), "the label store has an entry exactly for the existing edges");
        size_t pairs = 0; for (unsigned p = 0; p < NM; ++p) for (unsigned q = 0; q < NM; ++q) if (C[p][q]) ++pairs;
        CHECK(g.edgeLabels.size() == pairs, "the label store holds nothing but the labels of existing edges");
        L probe = pick();
        if (C[i][j]) {
            REACH("observed pair is an edge");
            CHECK(g.getEdgeLabel(i, j) == lab[i][j], "getEdgeLabel returns the label given at creation or last set");
            CHECK(g.getEdgeLabel(i, j, false) == lab[i][j], "getEdgeLabel(...,false) returns the label of an existing edge");
            CHECK(g.hasEdge(i, j, probe) == (lab[i][j] == probe), "hasEdge(i,j,l) iff the edge's label equals l");
        } else {
            REACH("observed pair is not an edge");
            bool threw = false;
            try { g.getEdgeLabel(i, j); } catch (std::invalid_argument &) { threw = true; }
            CHECK(threw, "getEdgeLabel of a pair that is not an edge throws std::invalid_argument");
            CHECK(g.getEdgeLabel(i, j, false) == L(), "getEdgeLabel(...,false) of a pair that is not an edge is a default label");
            CHECK(!g.hasEdge(i, j, probe), "hasEdge(i,j,l) is false for a pair that is not an edge");
        }
#endif
    }
#elif OBS == 1
    if (n2 > 0) {
        unsigned occ = 0, len = 0;
        for (VertexIndex x : g.getOutNeighbours(i)) { ++len; if (x == j) ++occ; }
        size_t row = 0; for (unsigned q = 0; q < NM; ++q) if (q < n2) row += C[i][q];
        CHECK(occ == C[i][j], "getOutNeighbours(i) lists j once per copy of (i,j)");
        CHECK(len == row, "getOutNeighbours(i) lists nothing but i's successors");
        CHECK(g.getOutDegree(i) == row, "getOutDegree is the number of successors");
        CHECK(g.getOutDegrees()[i] == row, "getOutDegrees agrees with getOutDegree");
        if (row > 1) REACH("observed vertex has several successors");
    }
#elif OBS == 2
    if (n2 > 0) {
        size_t col = 0; for (unsigned q = 0; q < NM; ++q) if (q < n2) col += C[q][j];
        CHECK(g.getInDegree(j) == col, "getInDegree is the number of predecessors");
        if (col > 1) REACH("observed vertex has several predecessors");
    }
#elif OBS == 3
    if (n2 > 0) {
        size_t col = 0; for (unsigned q = 0; q < NM; ++q) if (q < n2) col += C[q][j];
        CHECK(g.getInDegrees()[j] == col, "getInDegrees lists the number of predecessors of every vertex");
        if (col > 1) REACH("observed vertex has several predecessors");
    } else CHECK(g.getInDegrees().size() == 0, "getInDegrees of a graph without vertices is empty");
#elif OBS == 4
    if (n2 > 0) {
        CHECK(g.getAdjacencyMatrix()[i][j] == C[i][j], "adjacency matrix entry is the number of copies of (i,j)");
        if (cnt > 1) REACH("adjacency matrix of a graph with several edges");
    } else CHECK(g.getAdjacencyMatrix().size() == 0, "adjacency matrix of a graph without vertices is empty");
#elif OBS == 5
    {
        size_t total = 0; unsigned hits = 0;
        for (auto e : g.edges()) { ++total; if (e.first == i && e.second == j) ++hits; }
        CHECK(total == cnt, "edges() yields one item per edge copy");
        if (n2 > 0) CHECK(hits == C[i][j], "edges() yields (i,j) once per copy");
        if (cnt > 1) REACH("edges() enumerated several edges");
    }
#endif
    REACH("end of harness");
}
