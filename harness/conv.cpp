// C09: conversions, reversal and edge-list constructors keep edges and labels.  -DQ selects the obligation.
#include "vh.h"
#include "BaseGraph/directed_graph.hpp"
#include "BaseGraph/undirected_graph.hpp"
#include "BaseGraph/directed_multigraph.hpp"
#include "BaseGraph/undirected_multigraph.hpp"
#include "BaseGraph/directed_weighted_graph.hpp"
#include "BaseGraph/undirected_weighted_graph.hpp"
#include <tuple>
using namespace BaseGraph;
#ifndef Q
#define Q 0
#endif
#ifndef SEQK
#define SEQK 3 /* longest edge sequence handed to a constructor */
#endif
typedef LabeledDirectedGraph<int> D;
typedef LabeledUndirectedGraph<int> U;
#define LO(a, b) ((a) < (b) ? (a) : (b))
#define HI(a, b) ((a) < (b) ? (b) : (a))

#if Q <= 4
static int pick4() { return (int)nd(4) + 1; }
static void build_dir(D &g, unsigned n, unsigned C[NM][NM], int lab[NM][NM]) {
    size_t cnt = vh_build_directed(g, n, C); g.edgeNumber = cnt;
    for (unsigned i = 0; i < NM; ++i) for (unsigned j = 0; j < NM; ++j) if (i < n && j < n && C[i][j]) { lab[i][j] = pick4(); vh_label_set(g, i, j, lab[i][j]); }
}
static size_t build_und(U &g, unsigned n, unsigned C[NM][NM], int lab[NM][NM]) {
    size_t cnt = vh_build_undirected(g, n, C); g.edgeNumber = cnt;
    for (unsigned i = 0; i < NM; ++i) for (unsigned j = i; j < NM; ++j) if (i < n && j < n && C[i][j]) { lab[i][j] = pick4(); lab[j][i] = lab[i][j]; vh_label_set(g, i, j, lab[i][j]); }
    return cnt;
}
#endif

// ---- edge sequences for the constructors (Q >= 10): container kind -DCONT=0 std::list, 1 std::vector
#ifndef CONT
#define CONT 0
#endif
#if CONT == 0
#define SEQ std::list
#else
#define SEQ std::vector
#endif

extern "C" void harness() {
    const unsigned n = N;
    unsigned C[NM][NM]; int lab[NM][NM];
    (void)C; (void)lab;
    unsigned i = n ? nd(n) : 0, j = n ? nd(n) : 0;
    (void)i; (void)j;
#if Q == 0
    {   // getReversedGraph: exactly (j,i) with the label of (i,j)
        D g(n); build_dir(g, n, C, lab);
        D r = g.getReversedGraph();
        CHECK(r.getSize() == n, "the reversed graph has the same vertices");
        CHECK(r.getEdgeNumber() == g.getEdgeNumber(), "the reversed graph has as many edges");
        if (n) { CHECK(r.hasEdge(j, i) == (C[i][j] != 0), "the reversed graph contains exactly (j,i) for every edge (i,j)");
                 if (C[i][j]) { CHECK(r.getEdgeLabel(j, i) == lab[i][j], "(j,i) carries the label of (i,j)"); REACH("label of a reversed edge observed"); } }
    }
#elif Q == 1
    {   // reversing twice gives an equal graph
        D g(n); build_dir(g, n, C, lab);
        D rr = g.getReversedGraph().getReversedGraph();
        CHECK(rr == g, "reversing twice gives a graph equal to the original");
        if (g.getEdgeNumber() > 1) REACH("double reversal of a graph with several edges");
    }
#elif Q == 2
    {   // getDirectedGraph: both orientations (one for a loop) carrying the edge's label
        U g(n); size_t cnt = build_und(g, n, C, lab);
        D d = g.getDirectedGraph();
        size_t loops = 0; for (unsigned v = 0; v < NM; ++v) if (v < n) loops += C[v][v];
        CHECK(d.getSize() == n, "the directed copy has the same vertices");
        CHECK(d.getEdgeNumber() == 2 * (cnt - loops) + loops, "two directed edges per undirected edge, one per self-loop");
        if (n) { CHECK(d.hasEdge(i, j) == (C[i][j] != 0), "both orientations of every undirected edge are present, nothing else");
                 if (C[i][j]) { CHECK(d.getEdgeLabel(i, j) == lab[i][j], "each orientation carries the undirected edge's label"); if (i > j) REACH("label of the descending orientation observed"); if (i < j) REACH("label of the ascending orientation observed"); } }
    }
#elif Q == 3
    {   // undirected graph from a directed one: exactly the pairs joined in either direction, labelled as one of the directed edges
        D g(n); build_dir(g, n, C, lab);
        U u(g);
        size_t pairs = 0; for (unsigned a = 0; a < NM; ++a) for (unsigned b = a; b < NM; ++b) if (a < n && b < n && (C[a][b] || C[b][a])) ++pairs;
        CHECK(u.getSize() == n && u.getEdgeNumber() == pairs, "one undirected edge per pair joined in either direction");
        if (n) { CHECK(u.hasEdge(i, j) == (C[i][j] != 0 || C[j][i] != 0), "connects exactly the pairs joined in either direction");
                 if (C[i][j] || C[j][i]) { int l = u.getEdgeLabel(i, j); CHECK((C[i][j] && l == lab[i][j]) || (C[j][i] && l == lab[j][i]), "the undirected edge is labelled as one of the directed edges between the pair");
                                           if (C[i][j] && C[j][i] && lab[i][j] != lab[j][i]) REACH("reciprocal edges with different labels merged"); } }
    }
#elif Q == 4
    {   // undirected -> directed -> undirected is the identity
        U g(n); build_und(g, n, C, lab);
        U back(g.getDirectedGraph());
        CHECK(back == g, "undirected -> directed -> undirected gives a graph equal to the original");
        if (g.getEdgeNumber() > 1) REACH("round trip of a graph with several edges");
    }
#elif Q >= 10
    {   // edge-list constructors: 1+largest index vertices (none for an empty sequence), equal to adding the edges one at a time
        unsigned len = nd(SEQK + 1);
        unsigned ea[SEQK], eb[SEQK]; unsigned maxv = 0; bool any = false;
        for (unsigned c = 0; c < SEQK; ++c) { ea[c] = nd(NM); eb[c] = nd(NM); if (c < len) { any = true; if (ea[c] > maxv) maxv = ea[c]; if (eb[c] > maxv) maxv = eb[c]; } }
        const unsigned want_n = any ? maxv + 1 : 0;
        unsigned Cc[NM][NM]; for (unsigned a = 0; a < NM; ++a) for (unsigned b = 0; b < NM; ++b) Cc[a][b] = 0;
        unsigned pi = nd(NM), pj = nd(NM);     // observed pair (may lie outside the constructed graph: then it is not an edge)
#if Q == 10 || Q == 11   /* unlabelled: Container<Edge> */
        SEQ<Edge> seq; for (unsigned c = 0; c < SEQK; ++c) if (c < len) seq.push_back(Edge(ea[c], eb[c]));
#if Q == 10
        DirectedGraph g(seq);
        for (unsigned c = 0; c < SEQK; ++c) if (c < len) Cc[ea[c]][eb[c]] = 1;
#else
        UndirectedGraph g(seq);
        for (unsigned c = 0; c < SEQK; ++c) if (c < len) { Cc[ea[c]][eb[c]] = 1; Cc[eb[c]][ea[c]] = 1; }
#endif
        size_t cnt = 0; for (unsigned a = 0; a < NM; ++a) for (unsigned b = (Q == 11 ? a : 0); b < NM; ++b) cnt += Cc[a][b];
        CHECK(g.getSize() == want_n, "the constructed graph has 1+largest-index vertices (none for an empty container)");
        CHECK(g.getEdgeNumber() == cnt, "the constructed graph has the edges of the container, each once");
        if (pi < want_n && pj < want_n) CHECK(g.hasEdge(pi, pj) == (Cc[pi][pj] != 0), "the constructed graph has exactly the container's edges");
#elif Q == 12 || Q == 13  /* labelled: Container<LabeledEdge<int>>; the first label given to a pair stays */
        int el[SEQK]; int Lc[NM][NM];
        SEQ<LabeledEdge<int>> seq; for (unsigned c = 0; c < SEQK; ++c) { el[c] = (int)nd(4) + 1; if (c < len) seq.push_back(LabeledEdge<int>(ea[c], eb[c], el[c])); }
#if Q == 12
        D g(seq);
        for (unsigned c = 0; c < SEQK; ++c) if (c < len && !Cc[ea[c]][eb[c]]) { Cc[ea[c]][eb[c]] = 1; Lc[ea[c]][eb[c]] = el[c]; }
#else
        U g(seq);
        for (unsigned c = 0; c < SEQK; ++c) if (c < len && !Cc[ea[c]][eb[c]]) { Cc[ea[c]][eb[c]] = 1; Cc[eb[c]][ea[c]] = 1; Lc[ea[c]][eb[c]] = el[c]; Lc[eb[c]][ea[c]] = el[c]; }
#endif
        size_t cnt = 0; for (unsigned a = 0; a < NM; ++a) for (unsigned b = (Q == 13 ? a : 0); b < NM; ++b) cnt += Cc[a][b];
        CHECK(g.getSize() == want_n, "the constructed graph has 1+largest-index vertices (none for an empty container)");
        CHECK(g.getEdgeNumber() == cnt, "the constructed graph has the edges of the container, each once");
        if (pi < want_n && pj < want_n) { CHECK(g.hasEdge(pi, pj) == (Cc[pi][pj] != 0), "the constructed graph has exactly the container's edges");
            if (Cc[pi][pj]) { CHECK(g.getEdgeLabel(pi, pj) == Lc[pi][pj], "each edge carries the label it would get by adding the edges one at a time"); REACH("label of a constructed edge observed"); } }
#elif Q == 14 || Q == 15  /* multigraphs: Container<LabeledEdge<EdgeMultiplicity>>; multiplicities of repeated pairs add up */
        unsigned el[SEQK]; unsigned Mc[NM][NM]; for (unsigned a = 0; a < NM; ++a) for (unsigned b = 0; b < NM; ++b) Mc[a][b] = 0;
        SEQ<LabeledEdge<EdgeMultiplicity>> seq; for (unsigned c = 0; c < SEQK; ++c) { el[c] = nd(4); if (c < len) seq.push_back(LabeledEdge<EdgeMultiplicity>(ea[c], eb[c], el[c])); }
        size_t total = 0;
#if Q == 14
        DirectedMultigraph g(seq);
        for (unsigned c = 0; c < SEQK; ++c) if (c < len) { Mc[ea[c]][eb[c]] += el[c]; total += el[c]; }
#else
        UndirectedMultigraph g(seq);
        for (unsigned c = 0; c < SEQK; ++c) if (c < len) { Mc[ea[c]][eb[c]] += el[c]; if (ea[c] != eb[c]) Mc[eb[c]][ea[c]] += el[c]; total += el[c]; }
#endif
        size_t cnt = 0; for (unsigned a = 0; a < NM; ++a) for (unsigned b = (Q == 15 ? a : 0); b < NM; ++b) cnt += Mc[a][b] != 0;
        CHECK(g.getSize() == want_n, "the constructed multigraph has 1+largest-index vertices (none for an empty container)");
        CHECK(g.getEdgeNumber() == cnt && g.getTotalEdgeNumber() == total, "edge count and total are those of adding the multiedges one at a time");
        if (pi < want_n && pj < want_n) { CHECK(g.getEdgeMultiplicity(pi, pj) == Mc[pi][pj], "each pair has the multiplicity it would get by adding the multiedges one at a time"); if (Mc[pi][pj] > 3) REACH("repeated pair accumulated its multiplicities"); }
#elif Q == 16 || Q == 17  /* weighted graphs: Container<LabeledEdge<EdgeWeight>>; the first weight given to a pair stays */
        double el[SEQK]; double Wc[NM][NM]; long double total = 0;
        SEQ<LabeledEdge<EdgeWeight>> seq; for (unsigned c = 0; c < SEQK; ++c) { el[c] = vh_weight(); if (c < len) seq.push_back(LabeledEdge<EdgeWeight>(ea[c], eb[c], el[c])); }
#if Q == 16
        DirectedWeightedGraph g(seq);
        for (unsigned c = 0; c < SEQK; ++c) if (c < len && !Cc[ea[c]][eb[c]]) { Cc[ea[c]][eb[c]] = 1; Wc[ea[c]][eb[c]] = el[c]; total += el[c]; }
#else
        UndirectedWeightedGraph g(seq);
        for (unsigned c = 0; c < SEQK; ++c) if (c < len && !Cc[ea[c]][eb[c]]) { Cc[ea[c]][eb[c]] = 1; Cc[eb[c]][ea[c]] = 1; Wc[ea[c]][eb[c]] = el[c]; Wc[eb[c]][ea[c]] = el[c]; total += el[c]; }
#endif
        size_t cnt = 0; for (unsigned a = 0; a < NM; ++a) for (unsigned b = (Q == 17 ? a : 0); b < NM; ++b) cnt += Cc[a][b];
        CHECK(g.getSize() == want_n, "the constructed weighted graph has 1+largest-index vertices (none for an empty container)");
        CHECK(g.getEdgeNumber() == cnt && (long double)g.getTotalWeight() == total, "edge count and total weight are those of adding the edges one at a time");
        if (pi < want_n && pj < want_n) { CHECK(g.hasEdge(pi, pj) == (Cc[pi][pj] != 0), "the constructed weighted graph has exactly the container's edges");
            if (Cc[pi][pj]) { CHECK(g.getEdgeWeight(pi, pj) == Wc[pi][pj], "each edge carries the weight it would get by adding the edges one at a time"); REACH("weight of a constructed edge observed"); } }
#endif
        if (len == SEQK) REACH("constructor received a full-length sequence");
        if (len == 0) REACH("constructor received an empty container");
    }
#endif
    REACH("end of harness");
}
