// C14 (binary edge lists: layout and round trip) and C15 (truncated binary files) over the in-memory stream model.
//   Q=6/7: the loader / the writer against a harness-defined *recording* graph class (the functions are templates over the graph
//   class), so that vertex indices range over all 32-bit values and the index bytes of a file are arbitrary; -DCUT=1 cuts the file
//   -DUND=0/1, -DBL=<label type> 0 NoLabel 1 uint8_t 2 uint16_t 3 int 4 uint64_t 5 float 6 double, -DQ=<obligation>
#include "vh.h"
#include "BaseGraph/fileio.hpp"
#include <cstdint>
#include <type_traits>
using namespace BaseGraph;
#ifndef EMAXW
#define EMAXW 2 /* most edges in written graphs */
#endif
#ifndef UND
#define UND 0
#endif
#ifndef BL
#define BL 1
#endif
#if BL == 0
typedef NoLabel L;
#define LSZ 0
#elif BL == 1
typedef uint8_t L;
#define LSZ 1
#elif BL == 2
typedef uint16_t L;
#define LSZ 2
#elif BL == 3
typedef int L;
#define LSZ 4
#elif BL == 4
typedef uint64_t L;
#define LSZ 8
#elif BL == 5
typedef float L;
#define LSZ 4
#elif BL == 6
typedef double L;
#define LSZ 8
#endif
#if UND
typedef LabeledUndirectedGraph<L> G;
#define GT LabeledUndirectedGraph
#else
typedef LabeledDirectedGraph<L> G;
#define GT LabeledDirectedGraph
#endif
#define REC (8 + LSZ)
#ifndef Q
#define Q 0
#endif
#ifndef RECS
#define RECS 2 /* records in hand-made files */
#endif

// label <-> little-endian bytes, written with shifts (the oracle never uses memcpy on the host representation)
#if BL == 0
static L pick_label() { return L(); }
static unsigned long long label_bits(const L &) { return 0; }
static bool label_eq(const L &, const L &) { return true; }
#elif BL == 5
static L pick_label() { static const float T[4] = {0.0f, 1.5f, -2.25f, 1024.0f}; return T[nd(4)]; }
static unsigned long long label_bits(const L &l) { return l == 0.0f ? 0x00000000ull : l == 1.5f ? 0x3FC00000ull : l == -2.25f ? 0xC0100000ull : 0x44800000ull; }
static bool label_eq(const L &a, const L &b) { return a == b; }
#elif BL == 6
static L pick_label() { static const double T[4] = {0.0, 1.5, -2.25, 1024.0}; return T[nd(4)]; }
static unsigned long long label_bits(const L &l) { return l == 0.0 ? 0x0ull : l == 1.5 ? 0x3FF8000000000000ull : l == -2.25 ? 0xC002000000000000ull : 0x4090000000000000ull; }
static bool label_eq(const L &a, const L &b) { return a == b; }
#else
static L pick_label() {
#if BL == 4
    unsigned long long hi = ndu(), lo = ndu(); return (L)((hi << 32) | lo);
#else
    return (L)ndu();
#endif
}
static unsigned long long label_bits(const L &l) { return (unsigned long long)(typename std::make_unsigned<L>::type)l; }
static bool label_eq(const L &a, const L &b) { return a == b; }
#endif

// ---- the one in-memory file: helpers that read it on both builds
#ifdef VERIF_MODEL
static size_t file_len() { return std::verif_the_file.len; }
static unsigned file_byte(size_t k) { return std::verif_the_file.b[k]; }
static void file_set(const unsigned char *b, size_t len) { for (size_t k = 0; k < VERIF_FILE_CAP; ++k) if (k < len) std::verif_the_file.b[k] = b[k]; std::verif_the_file.len = len; }
static void file_openable(bool o) { std::verif_the_file.openable = o ? 1u : 0u; }
#define FNAME "f"
#else
#include <cstdio>
#include <unistd.h>
static char fname_buf[64];
static const char *fname() { if (!fname_buf[0]) std::snprintf(fname_buf, sizeof fname_buf, "/tmp/vf_bin_%d.bin", (int)getpid()); return fname_buf; }
static bool openable = true;
#define FNAME (openable ? fname() : "/nonexistent-dir/vf.bin")
static size_t file_len() { FILE *f = std::fopen(fname(), "rb"); if (!f) return 0; std::fseek(f, 0, SEEK_END); long n = std::ftell(f); std::fclose(f); return (size_t)n; }
static unsigned file_byte(size_t k) { FILE *f = std::fopen(fname(), "rb"); std::fseek(f, (long)k, SEEK_SET); int c = std::fgetc(f); std::fclose(f); return (unsigned)c; }
static void file_set(const unsigned char *b, size_t len) { FILE *f = std::fopen(fname(), "wb"); std::fwrite(b, 1, len, f); std::fclose(f); }
static void file_openable(bool o) { openable = o; }
#endif
static unsigned long long le_bytes(size_t at, unsigned nbytes) { unsigned long long v = 0; for (unsigned k = 0; k < 8; ++k) if (k < nbytes) v |= (unsigned long long)file_byte(at + k) << (8 * k); return v; }

template <class GG> static void write_graph(const GG &g) {
    io::writeBinaryEdgeList(g, FNAME);
}
static G load_graph() {
    return io::loadBinaryEdgeList<GT, L>(FNAME);
}

#if Q == 6 || Q == 7
// what the loader asks of a graph class: (0)-constructor, getSize, resize, addEdge(.., force); what the writer asks: edges(), getEdgeLabel
template <class LL> struct RecGraph {
    size_t size; unsigned nrec; unsigned ra[RECS + 1], rb[RECS + 1]; LL rl[RECS + 1]; bool forced[RECS + 1]; std::vector<Edge> list;
    explicit RecGraph(size_t n = 0) : size(n), nrec(0) {}
    size_t getSize() const { return size; }
    void resize(size_t n) { if (n < size) throw std::invalid_argument("Graph's size cannot be reduced."); size = n; }
    void add_(VertexIndex a, VertexIndex b, const LL &l, bool f) { if (a >= size || b >= size) throw std::out_of_range("Vertex index out of range"); if (nrec < RECS) { ra[nrec] = a; rb[nrec] = b; rl[nrec] = l; forced[nrec] = f; } ++nrec; }
    void addEdge(VertexIndex a, VertexIndex b, const LL &l, bool force = false) { add_(a, b, l, force); }
    void addEdge(VertexIndex a, VertexIndex b, bool force = false) { add_(a, b, LL(), force); }
    void addReciprocalEdge(VertexIndex a, VertexIndex b, const LL &l, bool force = false) { add_(a, b, l, force); add_(b, a, l, force); }
    const std::vector<Edge> &edges() const { return list; }
    LL getEdgeLabel(VertexIndex a, VertexIndex b, bool = true) const { LL r = LL(); for (unsigned k = 0; k < RECS; ++k) if (k < nrec && ra[k] == a && rb[k] == b) r = rl[k]; return r; }
    size_t getEdgeNumber() const { return nrec; }
};
#endif

extern "C" void harness() {
    file_openable(true);
#if Q == 0 || Q == 1
    // arbitrary valid graph with at most EMAXW edges
    const unsigned n = N;
    G g(n);
    unsigned C[NM][NM]; L lab[NM][NM]; unsigned LST[NM][VH_LC], LEN[NM];
    for (unsigned i = 0; i < NM; ++i) LEN[i] = 0;
#if UND
    size_t cnt = vh_build_undirected(g, n, C, LST, LEN);
#else
    size_t cnt = vh_build_directed(g, n, C, LST, LEN);
#endif
    g.edgeNumber = cnt;
    ASSUME(cnt <= EMAXW);
    for (unsigned i = 0; i < NM; ++i) for (unsigned j = (UND ? i : 0); j < NM; ++j) if (i < n && j < n && C[i][j]) { L l = pick_label(); lab[i][j] = l; if (UND) lab[j][i] = l;
#if BL != 0
        vh_label_set(g, i, j, l);
#endif
    }
    write_graph(g);
#if Q == 0
    // layout: one record per enumerated edge: LE32(src) LE32(dst) LE(label)
    CHECK(file_len() == cnt * REC, "the file is nothing but one fixed-size record per edge");
    unsigned r = nd(EMAXW);
    if (r < cnt) {
        // the r-th enumerated edge: vertices ascending, neighbour-list order, one orientation (smaller, larger) per undirected edge (C08)
        unsigned k = 0; Edge er(0, 0);
        for (unsigned v = 0; v < NM; ++v) for (unsigned c = 0; c < VH_LC; ++c) if (v < n && c < LEN[v] && (!UND || v <= LST[v][c])) { if (k == r) er = Edge(v, LST[v][c]); ++k; }
        CHECK(le_bytes(r * REC, 4) == er.first && le_bytes(r * REC + 4, 4) == er.second, "source and destination are 32-bit little-endian unsigned integers");
#if BL != 0
        CHECK(le_bytes(r * REC + 8, LSZ) == label_bits(lab[er.first][er.second]), "the label follows as its fixed-size little-endian bytes");
#endif
        if (r > 0) REACH("layout of a later record observed");
    }
#else
    // round trip: load(write(g)) resized to the original size equals g
    G h = load_graph();
    unsigned maxv = 0; bool any = false; for (unsigned i = 0; i < NM; ++i) for (unsigned j = 0; j < NM; ++j) if (i < n && j < n && C[i][j]) { any = true; if (i > maxv) maxv = i; if (j > maxv) maxv = j; }
    CHECK(h.getSize() == (any ? maxv + 1 : 0), "the loaded graph has 1+largest-used-index vertices");
    h.resize(n);
    CHECK(h == g, "write then load gives a graph equal to the original once resized to the original size, labels included");
    if (cnt > 1) REACH("round trip of a graph with several edges");
#endif
#elif Q == 2 || Q == 3
    // hand-made file: RECS records with indices < NM in any order (Q==3: cut at an arbitrary byte offset)
    unsigned char buf[RECS * REC + 1]; unsigned ra[RECS], rb[RECS]; L rl[RECS];
    for (unsigned r = 0; r < RECS; ++r) {
        ra[r] = nd(NM); rb[r] = nd(NM); rl[r] = pick_label();
        for (unsigned k = 0; k < 4; ++k) { buf[r * REC + k] = (unsigned char)(ra[r] >> (8 * k)); buf[r * REC + 4 + k] = (unsigned char)(rb[r] >> (8 * k)); }
        unsigned long long bits = label_bits(rl[r]); for (unsigned k = 0; k < LSZ; ++k) buf[r * REC + 8 + k] = (unsigned char)(bits >> (8 * k));
    }
#if Q == 2
    const size_t len = RECS * REC;
#else
    const size_t len = nd(RECS * REC + 1);                      // every crash point of the writer
#endif
    file_set(buf, len);
    const unsigned complete = (unsigned)(len / REC);
    bool threw = false; G h(0);
    try { h = load_graph(); } catch (std::exception &) { threw = true; }
#if Q == 2
    CHECK(!threw, "a well-formed file loads");
#endif
    if (!threw) {
        // exactly the edges of the complete records (with multiplicity: the loader forces), with their labels
        unsigned maxv = 0; for (unsigned r = 0; r < RECS; ++r) if (r < complete) { if (ra[r] > maxv) maxv = ra[r]; if (rb[r] > maxv) maxv = rb[r]; }
        CHECK(h.getSize() == (complete ? maxv + 1 : 0), "the loaded graph has 1+largest-used-index vertices of the complete records");
        CHECK(h.getEdgeNumber() == complete, "the loader returns exactly the edges of the complete records - nothing pieced together from a partial record");
        unsigned pi = nd(NM), pj = nd(NM);
        if (pi < h.getSize() && pj < h.getSize()) {
            unsigned want = 0; unsigned last = RECS;
            for (unsigned r = 0; r < RECS; ++r) if (r < complete && ((ra[r] == pi && rb[r] == pj) || (UND && ra[r] == pj && rb[r] == pi))) { ++want; last = r; }
            unsigned occ = 0; for (VertexIndex x : h.getOutNeighbours(pi)) if (x == pj) ++occ;
            CHECK(occ == ((UND && pi == pj) ? want : want), "every record's edge is present once per record");
#if BL != 0
            if (want) { CHECK(label_eq(h.getEdgeLabel(pi, pj), rl[last]), "the edge carries the label of its (last) record"); REACH("label of a loaded edge observed"); }
#endif
        }
        if (len % REC) REACH("file cut inside a record");
    }
#elif Q == 6
    {   // every byte of the index fields arbitrary: the loader hands the graph class exactly the little-endian values, record by record
        unsigned char buf[RECS * REC + 1]; unsigned ea[RECS], eb[RECS]; L rl[RECS];
        for (unsigned r = 0; r < RECS; ++r) {
            for (unsigned k = 0; k < 8; ++k) buf[r * REC + k] = (unsigned char)(ndu() & 0xff);
            ea[r] = 0; eb[r] = 0;
            for (unsigned k = 0; k < 4; ++k) { ea[r] |= (unsigned)buf[r * REC + k] << (8 * k); eb[r] |= (unsigned)buf[r * REC + 4 + k] << (8 * k); }
            ASSUME(ea[r] != 0xffffffffu && eb[r] != 0xffffffffu);       // a graph of 2^32 vertices is outside the claim
            rl[r] = pick_label();
            unsigned long long bits = label_bits(rl[r]); for (unsigned k = 0; k < LSZ; ++k) buf[r * REC + 8 + k] = (unsigned char)(bits >> (8 * k));
        }
#ifdef CUT
        const size_t len = nd(RECS * REC + 1);
#else
        const size_t len = RECS * REC;
#endif
        file_set(buf, len);
        const unsigned complete = (unsigned)(len / REC);
        bool threw = false; RecGraph<L> h(0);
        try { h = io::loadBinaryEdgeList<RecGraph, L>(FNAME); } catch (std::exception &) { threw = true; }
        CHECK(!threw, "a file of records loads without an exception, whatever the bytes of the index fields");
        if (!threw) {
            CHECK(h.nrec == complete, "the loader adds exactly one edge per complete record, whatever the bytes");
            unsigned r = nd(RECS);
            if (r < complete && r < h.nrec) {
                CHECK(h.ra[r] == ea[r] && h.rb[r] == eb[r], "source and destination are decoded as 32-bit little-endian unsigned integers, record by record");
                CHECK(label_eq(h.rl[r], rl[r]), "the label is decoded from its fixed-size little-endian bytes");
                CHECK(h.forced[r], "records are added with force (the loader does not scan for duplicates)");
                if ((ea[r] & 0xff) == 0xff && r + 1 < complete) REACH("record starting with byte 0xff followed by another record");
                if (ea[r] > 0xffff) REACH("index using the upper bytes");
            }
            unsigned maxv = 0; for (unsigned q = 0; q < RECS; ++q) if (q < complete) { if (ea[q] > maxv) maxv = ea[q]; if (eb[q] > maxv) maxv = eb[q]; }
            CHECK(h.getSize() == (complete ? (size_t)maxv + 1 : 0), "the loaded graph has 1+largest-used-index vertices");
        }
    }
#elif Q == 7
    {   // the writer's layout for arbitrary 32-bit indices
        RecGraph<L> g(0); unsigned ea[RECS], eb[RECS]; L rl[RECS];
        unsigned cnt = nd(RECS + 1);
        for (unsigned r = 0; r < RECS; ++r) if (r < cnt) {
            ea[r] = ndu(); eb[r] = ndu(); rl[r] = pick_label();
            for (unsigned q = 0; q < RECS; ++q) if (q < r) ASSUME(!(ea[q] == ea[r] && eb[q] == eb[r]));   // one label per pair
            g.ra[r] = ea[r]; g.rb[r] = eb[r]; g.rl[r] = rl[r]; g.forced[r] = false; g.nrec = r + 1; g.list.push_back(Edge(ea[r], eb[r]));
        }
        g.size = 0xffffffffu;
        write_graph(g);
        CHECK(file_len() == (size_t)cnt * REC, "the file is nothing but one fixed-size record per edge");
        unsigned r = nd(RECS);
        if (r < cnt) {
            CHECK(le_bytes(r * REC, 4) == ea[r] && le_bytes(r * REC + 4, 4) == eb[r], "source and destination are written as 32-bit little-endian unsigned integers");
#if BL != 0
            CHECK(le_bytes(r * REC + 8, LSZ) == label_bits(rl[r]), "the label follows as its fixed-size little-endian bytes");
#endif
            if (ea[r] > 0xffffff) REACH("index using the top byte written");
        }
    }
#elif Q == 4
    // a file that cannot be opened makes the writer and the loader throw std::runtime_error
    file_openable(false);
    G g(2);
    bool w = false, l = false;
    try { write_graph(g); } catch (std::runtime_error &) { w = true; }
    try { (void)load_graph(); } catch (std::runtime_error &) { l = true; }
    CHECK(w, "writeBinaryEdgeList throws std::runtime_error when the file cannot be opened");
    CHECK(l, "loadBinaryEdgeList throws std::runtime_error when the file cannot be opened");
#elif Q == 5
    {   // swapBytes is byte reversal and an involution (the kernel the big-endian branch would use)
#if BL != 0
        L x = pick_label(); L y = x; io::swapBytes(y);
        unsigned long long bx = label_bits(x), by = 0; for (unsigned k = 0; k < LSZ; ++k) by |= ((bx >> (8 * k)) & 0xff) << (8 * (LSZ - 1 - k));
#if BL < 5
        CHECK(label_bits(y) == by, "swapBytes reverses the bytes of its argument");
#endif
        io::swapBytes(y);
        CHECK(label_eq(x, y), "swapBytes is an involution");
#endif
        CHECK(!io::SYSTEM_IS_BIG_ENDIAN, "this host is little-endian");
    }
#endif
    REACH("end of harness");
}
