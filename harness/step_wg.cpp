// One inductive step of DirectedWeightedGraph (-DUND=0) / UndirectedWeightedGraph (-DUND=1) from an arbitrary valid state.
// Serves C05 (per-edge weights and running total consistent) and C16 (forced duplicates on weighted graphs, DUP>1).
// Weights come from a table of dyadic rationals whose partial sums are exact in double and long double, so the
// property's "exactly when representable" case applies and equality is asserted.
#include "vh.h"
#if UND
#include "BaseGraph/undirected_weighted_graph.hpp"
#else
#include "BaseGraph/directed_weighted_graph.hpp"
#endif
#include <stdexcept>
using namespace BaseGraph;
#if UND
typedef UndirectedWeightedGraph G;
#else
typedef DirectedWeightedGraph G;
#endif

#define OP_ADD 0
#define OP_SET 1
#define OP_REMOVE 3
#define OP_RMLOOPS 4
#define OP_RMVERTEX 5
#define OP_CLEAR 6
#define OP_RESIZE 7
#define OP_CTOR 9
#define OP_FORCE_ADD 12
#define OP_DEDUP 13
#define OP_NONE 14
#ifndef OP
#define OP OP_ADD
#endif
#ifndef OBS
#define OBS 0
#endif
#define LO(a, b) ((a) < (b) ? (a) : (b))
#define HI(a, b) ((a) < (b) ? (b) : (a))
#define SAME_STATE(g, before) ((g).adjacencyList == (before).adjacencyList && (g).edgeNumber == (before).edgeNumber && (g).edgeLabels == (before).edgeLabels && (g).size == (before).size && (g).totalWeight == (before).totalWeight)

extern "C" void harness() {
    const unsigned n = N;
    unsigned n2 = n;
    unsigned C[NM][NM]; double W[NM][NM];    // W[min][max] when UND
    size_t cnt = 0; long double total = 0;
    unsigned LST[NM][VH_LC], LEN[NM];        // the pre-state's neighbour lists in list order (the code subtracts weights in that order)
    for (unsigned i = 0; i < NM; ++i) LEN[i] = 0;
    G g(n);
#if OP == OP_CTOR
    for (unsigned i = 0; i < NM; ++i) for (unsigned j = 0; j < NM; ++j) C[i][j] = 0;
#else
#if UND
    cnt = vh_build_undirected(g, n, C, LST, LEN);
#else
    cnt = vh_build_directed(g, n, C, LST, LEN);
#endif
    g.edgeNumber = cnt;
    for (unsigned i = 0; i < NM; ++i) for (unsigned j = (UND ? i : 0); j < NM; ++j) if (i < n && j < n && C[i][j]) {
#ifdef POSW
        double w = VH_W[(i * NM + j + POSW) % 8];   // weights fixed by position (see spec.py: total-weight queries of the bulk removals)
#else
        double w = vh_weight();
#endif
        W[i][j] = w; vh_label_set(g, i, j, w);
        for (unsigned c = 0; c < DUP; ++c) if (c < C[i][j]) total += w;
    }
#if OBS == 6
    // total-weight queries: the pre-state total is an arbitrary multiple of 1/4 (opaque to the solver); what is decided is the
    // update  total' = total (+/-) the operation's delta.  With RI (total = exact sum) and exactness of all sums of table
    // weights this gives RI for the post-state.  (Asserting the recomputed sum instead makes the solver prove two
    // differently associated floating-point sums equal, which it cannot do within any budget.)
#ifdef POSW
    { static const long double T0[4] = {0.0L, 7.25L, -3.5L, 1024.75L}; total = T0[nd(4)]; }
#else
    total = (long double)(int)(nd(1u << 20)) * 0.25L - 1000.0L;
#endif
#endif
    g.totalWeight = total;
#endif
#ifdef FIXA
    unsigned a = FIXA, b = FIXB;   // sub-query with fixed vertex arguments (the union over all pairs is the same space)
#else
    unsigned a = n ? nd(n) : 0, b = n ? nd(n) : 0;
#endif
    const unsigned lo = UND ? LO(a, b) : a, hi = UND ? HI(a, b) : b;
    double w = vh_weight();
    (void)w; (void)lo; (void)hi;

#if OP == OP_ADD
    {
        ASSUME(n > 0);
        G before = g;
        g.addEdge(a, b, w);
        if (!C[a][b]) { C[a][b] = 1; if (UND) C[b][a] = 1; W[lo][hi] = w; ++cnt; total += w; REACH("addEdge created a weighted edge"); if (a > b) REACH("addEdge named the pair in descending order"); }
        else { REACH("addEdge on an existing edge"); CHECK(SAME_STATE(g, before), "addEdge on an existing edge changes nothing"); }
    }
#elif OP == OP_SET
    ASSUME(n > 0);
    g.setEdgeWeight(a, b, w);
    if (C[a][b]) { total += w - W[lo][hi]; W[lo][hi] = w; REACH("setEdgeWeight overwrote an existing weight"); if (a > b) REACH("setEdgeWeight named an existing pair in descending order"); }
    else { C[a][b] = 1; if (UND) C[b][a] = 1; W[lo][hi] = w; ++cnt; total += w; REACH("setEdgeWeight created the edge"); }
#elif OP == OP_REMOVE
    {
        ASSUME(n > 0);
        G before = g;
        g.removeEdge(a, b);
        if (C[a][b]) { total -= W[lo][hi] * (size_t)C[a][b]; cnt -= C[a][b]; C[a][b] = 0; if (UND) C[b][a] = 0; REACH("removeEdge removed a weighted edge"); if (a > b) REACH("removeEdge named the pair in descending order"); }
        else { REACH("removeEdge on an absent edge"); CHECK(SAME_STATE(g, before), "removing an absent edge changes nothing"); }
    }
#elif OP == OP_RMLOOPS
    g.removeSelfLoops();
    for (unsigned i = 0; i < NM; ++i) if (i < n && C[i][i]) { REACH("removeSelfLoops removed a loop"); total -= W[i][i] * (size_t)C[i][i]; cnt -= C[i][i]; C[i][i] = 0; }
#elif OP == OP_RMVERTEX
    ASSUME(n > 0);
    g.removeVertexFromEdgeList(a);
    // the expected total is written in the order in which the code visits the edges (all sums of table weights are exact,
    // so any order denotes the same number; a different order would only make the solver's job harder)
#if UND
    for (unsigned i = 0; i < NM; ++i) if (i < n) for (unsigned c = 0; c < VH_LC; ++c) if (c < LEN[i]) { unsigned q = LST[i][c]; if ((i == a || q == a) && i <= q) total -= W[i][q]; }
    for (unsigned q = 0; q < NM; ++q) if (q < n && C[a][q]) { REACH("removed vertex had an out-edge / neighbour"); cnt -= C[a][q]; C[a][q] = 0; C[q][a] = 0; }
#else
    for (unsigned c = 0; c < VH_LC; ++c) if (c < LEN[a]) total -= W[a][LST[a][c]];
    for (unsigned q = 0; q < NM; ++q) if (q < n && q != a && C[q][a]) total -= W[q][a] * (size_t)C[q][a];
    for (unsigned q = 0; q < NM; ++q) if (q < n) {
        if (C[a][q]) { REACH("removed vertex had an out-edge / neighbour"); cnt -= C[a][q]; C[a][q] = 0; }
        if (q != a && C[q][a]) { REACH("removed vertex had an in-edge"); cnt -= C[q][a]; C[q][a] = 0; }
    }
#endif
#elif OP == OP_CLEAR
    g.clearEdges();
    if (cnt > 1) REACH("clearEdges on a graph with several edges");
    for (unsigned i = 0; i < NM; ++i) for (unsigned j = 0; j < NM; ++j) C[i][j] = 0;
    cnt = 0; total = 0;
#elif OP == OP_RESIZE
    n2 = n + nd(NM - n + 1);
    g.resize(n2);
    if (n2 > n && cnt > 0) REACH("resize grew a graph that has edges");
#elif OP == OP_FORCE_ADD
    ASSUME(n > 0); ASSUME(C[a][b] < DUP); if (C[a][b]) ASSUME(w == W[lo][hi]);
    g.addEdge(a, b, w, true);
    if (C[a][b]) REACH("forced insertion of an existing weighted edge");
    ++C[a][b]; if (UND && a != b) ++C[b][a]; W[lo][hi] = w; ++cnt; total += w;
#elif OP == OP_DEDUP
    g.removeDuplicateEdges();
    for (unsigned i = 0; i < NM; ++i) if (i < n) { unsigned seen[NM]; for (unsigned q = 0; q < NM; ++q) seen[q] = 0;
        for (unsigned c = 0; c < VH_LC; ++c) if (c < LEN[i]) { unsigned q = LST[i][c]; if (seen[q]) { if (!UND || i <= q) total -= W[UND ? LO(i, q) : i][UND ? HI(i, q) : q]; } seen[q] = 1; } }
    for (unsigned i = 0; i < NM; ++i) for (unsigned j = (UND ? i : 0); j < NM; ++j) if (i < n && j < n && C[i][j] > 1) {
        REACH("duplicate weighted edge removed"); cnt -= C[i][j] - 1; C[i][j] = 1; if (UND) C[j][i] = 1; }
#endif

    CHECK(g.getSize() == n2, "getSize is the vertex count");
    CHECK(g.adjacencyList.size() == n2, "one neighbour list per vertex");
    unsigned i = n2 ? nd(n2) : 0, j = n2 ? nd(n2) : 0;
    const unsigned ilo = UND ? LO(i, j) : i, ihi = UND ? HI(i, j) : j;
    (void)ilo; (void)ihi;
#if OBS == 0
    CHECK(g.getEdgeNumber() == cnt, "getEdgeNumber counts the edges");
    if (n2 > 0) {
        CHECK(g.hasEdge(i, j) == (C[i][j] != 0), "hasEdge matches the edge set");
#if UND
        CHECK(g.edgeLabels.count({i, j}) == ((C[i][j] != 0 && i <= j) ? 1u : 0u), "the weight store has an entry exactly for the existing edges, keyed (min,max)");
        size_t pairs = 0; for (unsigned p = 0; p < NM; ++p) for (unsigned q = p; q < NM; ++q) if (C[p][q]) ++pairs;
#else
        CHECK(g.edgeLabels.count({i, j}) == (C[i][j] != 0 ? 1u : 0u), "the weight store has an entry exactly for the existing edges");
        size_t pairs = 0; for (unsigned p = 0; p < NM; ++p) for (unsigned q = 0; q < NM; ++q) if (C[p][q]) ++pairs;
#endif
        CHECK(g.edgeLabels.size() == pairs, "the weight store holds nothing but existing edges");
        if (C[i][j]) {
            REACH("observed pair is an edge");
            if (i > j) REACH("weight observed in descending orientation");
            CHECK(g.getEdgeWeight(i, j) == W[ilo][ihi], "getEdgeWeight is the weight given at creation or by the last setEdgeWeight");
            CHECK(g.getEdgeWeight(i, j, false) == W[ilo][ihi], "getEdgeWeight(...,false) returns the weight of an existing edge");
        } else {
            REACH("observed pair is not an edge");
            bool threw = false;
            try { g.getEdgeWeight(i, j); } catch (std::invalid_argument &) { threw = true; }
            CHECK(threw, "getEdgeWeight of a missing edge throws std::invalid_argument");
            CHECK(g.getEdgeWeight(i, j, false) == 0.0, "getEdgeWeight(...,false) of a missing edge is 0");
        }
    }
#elif OBS == 6
    CHECK((long double)g.getTotalWeight() == total, "getTotalWeight is the exact sum of the weights of the edges present");
#elif OBS == 1
    if (n2 > 0) {
        unsigned occ = 0, len = 0;
        for (VertexIndex x : g.getOutNeighbours(i)) { ++len; if (x == j) ++occ; }
        size_t row = 0; for (unsigned q = 0; q < NM; ++q) if (q < n2) row += C[i][q];
        CHECK(occ == C[i][j], "the neighbour list holds j once per copy");
        CHECK(len == row, "the neighbour list holds nothing else");
        if (row > 1) REACH("observed vertex has several neighbours");
    }
#elif OBS == 2
    if (n2 > 0) {
        double want = C[i][j] ? W[ilo][ihi] : 0.0;
        CHECK(g.getWeightMatrix()[i][j] == want, "getWeightMatrix holds each edge's weight (mirrored when undirected) and 0 elsewhere");
        if (cnt > 1) REACH("weight matrix of a graph with several edges");
    }
#elif OBS == 4
    if (n2 > 0) {
#if UND
        CHECK(g.getAdjacencyMatrix()[i][j] == (i == j ? 2 * C[i][j] : C[i][j]), "the unweighted adjacency matrix is that of the simple graph");
#else
        CHECK(g.getAdjacencyMatrix()[i][j] == C[i][j], "the unweighted adjacency matrix is that of the simple graph");
#endif
        if (cnt > 1) REACH("adjacency matrix of a graph with several edges");
    }
#endif
    REACH("end of harness");
}
