// C07: invalid calls are rejected with the documented exception and change nothing.
//   -DKIND=0..5 (class, see eq.cpp)  -DENTRY=<entry point>  -DPOS=<argument position that carries the out-of-range vertex>
// The out-of-range value is any 32-bit value >= n; the other vertex argument is completely arbitrary; every flag is symbolic.
#include "vh.h"
#include "BaseGraph/directed_graph.hpp"
#include "BaseGraph/undirected_graph.hpp"
#include "BaseGraph/directed_multigraph.hpp"
#include "BaseGraph/undirected_multigraph.hpp"
#include "BaseGraph/directed_weighted_graph.hpp"
#include "BaseGraph/undirected_weighted_graph.hpp"
#include "BaseGraph/algorithms/paths.hpp"
#include <unordered_set>
#include <unordered_map>
#include "BaseGraph/algorithms/topology.hpp"
using namespace BaseGraph;

#ifndef KIND
#define KIND 0
#endif
#ifndef LT
#define LT 1
#endif
#if LT == 0
typedef NoLabel LL;
#else
typedef int LL;
#endif
#if KIND == 0
typedef LabeledDirectedGraph<LL> G; typedef LL L;
#define UND 0
#elif KIND == 1
typedef LabeledUndirectedGraph<LL> G; typedef LL L;
#define UND 1
#elif KIND == 2
typedef DirectedMultigraph G; typedef unsigned L;
#define UND 0
#elif KIND == 3
typedef UndirectedMultigraph G; typedef unsigned L;
#define UND 1
#elif KIND == 4
typedef DirectedWeightedGraph G; typedef double L;
#define UND 0
#elif KIND == 5
typedef UndirectedWeightedGraph G; typedef double L;
#define UND 1
#endif
#define HASLABEL (KIND >= 2 || LT != 0)

static L pickl() {
#if KIND == 2 || KIND == 3
    return 1 + nd(3);
#elif KIND >= 4
    return VH_W[nd(8)];
#elif LT == 0
    return L();
#else
    return (int)ndu();
#endif
}

#ifndef ENTRY
#define ENTRY 0
#endif
#ifndef POS
#define POS 0
#endif
#define WANT_OOR 1
#define WANT_INV 2

extern "C" void harness() {
    const unsigned n = N;
    G g(n);
    unsigned C[NM][NM];
#if UND
    size_t cnt = vh_build_undirected(g, n, C);
#else
    size_t cnt = vh_build_directed(g, n, C);
#endif
    g.edgeNumber = cnt;
#if HASLABEL
    {
#if KIND == 2 || KIND == 3
        size_t total = 0;
#elif KIND >= 4
        long double total = 0;
#endif
        for (unsigned i = 0; i < NM; ++i) for (unsigned j = (UND ? i : 0); j < NM; ++j) if (i < n && j < n && C[i][j]) {
            L l = pickl(); vh_label_set(g, i, j, l);
#if KIND >= 2
            total += l;
#endif
        }
#if KIND == 2 || KIND == 3
        g.totalEdgeNumber = total;
#elif KIND >= 4
        g.totalWeight = total;
#endif
    }
#endif
#ifdef BADV
    // sub-query with a concrete out-of-range value (size, size+1, UINT_MAX): lets constant propagation prune the search's body
    const unsigned bad = BADV == 0 ? n : BADV == 1 ? n + 1 : 4294967295u;
#else
    unsigned bad = ndu(); ASSUME(bad >= n);
#endif
#if defined(ORPHAN) && (KIND == 0 || KIND == 1) && LT != 0
    // reachable through the documented setEdgeLabel(..., force=true): label entries for pairs that are not edges
    for (unsigned i = 0; i < NM; ++i) for (unsigned j = (UND ? i : 0); j < NM; ++j) if (i < n && j < n && !C[i][j] && ndb()) { vh_label_set(g, i, j, pickl()); REACH("state with an orphan label"); }
#endif
    unsigned other = ndu();
#if defined(OTHER_IN_RANGE)
    ASSUME(other < n);
#endif
    const unsigned x = POS == 0 ? bad : other, y = POS == 0 ? other : bad;   // (x,y): the pair passed; position P is out of range
    const bool f1 = ndb(), f2 = ndb();
    L l = pickl();
    unsigned k = nd(4);
    int want = WANT_OOR;
    (void)x; (void)y; (void)f1; (void)f2; (void)l; (void)k;
    const G before = g;
    int got = 0;
    try {
        // -------------------------------------------------------------------------------- entry points
#if KIND == 0 || KIND == 1
#if ENTRY == 0
        g.addEdge(x, y, l, f1);
#elif ENTRY == 1
        g.addEdge(x, y, f1);
#elif ENTRY == 2
        (void)g.hasEdge(x, y);
#elif ENTRY == 3
        (void)g.hasEdge(x, y, l);
#elif ENTRY == 4
        (void)g.getOutNeighbours(bad);
#elif ENTRY == 5
        g.removeEdge(x, y);
#elif ENTRY == 6
        (void)g.getEdgeLabel(x, y, f1);
#elif ENTRY == 7
        g.setEdgeLabel(x, y, l, f1);
#elif ENTRY == 8
        g.removeVertexFromEdgeList(bad);
#elif ENTRY == 9
        g.assertVertexInRange(bad);
#elif ENTRY == 10 && KIND == 0
        g.addReciprocalEdge(x, y, l, f1);
#elif ENTRY == 11 && KIND == 0
        g.addReciprocalEdge(x, y, f1);
#elif ENTRY == 12 && KIND == 0
        (void)g.getInDegree(bad);
#elif ENTRY == 13 && KIND == 0
        (void)g.getOutDegree(bad);
#elif ENTRY == 10 && KIND == 1
        (void)g.getNeighbours(bad);
#elif ENTRY == 11 && KIND == 1
        (void)g.getDegree(bad, f1);
        // ---- documented std::invalid_argument cases (valid vertices)
#elif ENTRY == 20
        { ASSUME(n > 0); unsigned m = nd(n); want = WANT_INV; g.resize(m); }                     // fewer vertices
#elif ENTRY == 21
        { ASSUME(n > 0 && LT != 0); unsigned a = nd(n), b = nd(n); ASSUME(!C[a][b]); want = WANT_INV; g.setEdgeLabel(a, b, l); }
#elif ENTRY == 22
        { ASSUME(n > 0 && LT != 0); unsigned a = nd(n), b = nd(n); ASSUME(!C[a][b]); want = WANT_INV; (void)g.getEdgeLabel(a, b); }
        // ---- subgraph extraction and path searches
#elif ENTRY == 30   /* the out-of-range member is met first */
        { std::unordered_set<VertexIndex> S; S.insert(bad); (void)algorithms::getSubgraph(g, S); }
#elif ENTRY == 31
        { std::unordered_set<VertexIndex> S; S.insert(bad); (void)algorithms::getSubgraphWithRemap(g, S); }
#elif ENTRY == 32   /* the out-of-range member is met after a valid one */
        { ASSUME(n > 0); std::unordered_set<VertexIndex> S; unsigned sq[2]; sq[0] = nd(n); sq[1] = bad; vh_set_with_order(S, sq, 2); (void)algorithms::getSubgraph(g, S); }
#elif ENTRY == 33
        { ASSUME(n > 0); std::unordered_set<VertexIndex> S; unsigned sq[2]; sq[0] = nd(n); sq[1] = bad; vh_set_with_order(S, sq, 2); (void)algorithms::getSubgraphWithRemap(g, S); }
#elif ENTRY == 40
        (void)algorithms::findVertexPredecessors(g, bad);
#elif ENTRY == 41
        (void)algorithms::findAllVertexPredecessors(g, bad);
#elif ENTRY == 42
        (void)algorithms::findGeodesics(g, x, y);
#elif ENTRY == 43
        (void)algorithms::findAllGeodesics(g, x, y);
#elif ENTRY == 44
        (void)algorithms::findGeodesicsFromVertex(g, bad);
#elif ENTRY == 45
        (void)algorithms::findAllGeodesicsFromVertex(g, bad);
#elif ENTRY == 46
        { ASSUME(n > 0); unsigned s = nd(n); algorithms::Predecessors pr{std::vector<size_t>(n, 0), std::vector<VertexIndex>(n, 0)}; (void)algorithms::findPathToVertexFromPredecessors(g, POS == 0 ? bad : s, POS == 0 ? s : bad, pr); }
#elif ENTRY == 47
        { ASSUME(n > 0); unsigned s = nd(n); algorithms::MultiplePredecessors pr{std::vector<size_t>(n, 0), std::vector<std::list<VertexIndex>>(n, std::list<VertexIndex>())}; (void)algorithms::findMultiplePathsToVertexFromPredecessors(g, POS == 0 ? bad : s, POS == 0 ? s : bad, pr); }
#endif
#elif KIND == 2 || KIND == 3
#if ENTRY == 0
        g.addEdge(x, y, f1);
#elif ENTRY == 1
        g.addMultiedge(x, y, k, f1);
#elif ENTRY == 2
        g.removeEdge(x, y);
#elif ENTRY == 3
        g.removeMultiedge(x, y, k);
#elif ENTRY == 4
        (void)g.hasEdge(x, y);
#elif ENTRY == 5
        (void)g.getEdgeMultiplicity(x, y);
#elif ENTRY == 6
        g.setEdgeMultiplicity(x, y, k);
#elif ENTRY == 7
        g.removeVertexFromEdgeList(bad);
#elif ENTRY == 8
        (void)g.getOutNeighbours(bad);
#elif ENTRY == 9 && KIND == 2
        (void)g.getOutDegree(bad);
#elif ENTRY == 10 && KIND == 2
        (void)g.getInDegree(bad);
#elif ENTRY == 11 && KIND == 2
        g.addReciprocalEdge(x, y, f1);
#elif ENTRY == 12 && KIND == 2
        g.addReciprocalMultiedge(x, y, k, f1);
#elif ENTRY == 9 && KIND == 3
        (void)g.getDegree(bad, f1);
#elif ENTRY == 20
        { ASSUME(n > 0); unsigned m = nd(n); want = WANT_INV; g.resize(m); }
#endif
#else /* weighted */
#if ENTRY == 0
        g.addEdge(x, y, l, f1);
#elif ENTRY == 1
        g.removeEdge(x, y);
#elif ENTRY == 2
        (void)g.getEdgeWeight(x, y, f1);
#elif ENTRY == 3
        g.setEdgeWeight(x, y, l);
#elif ENTRY == 4
        g.removeVertexFromEdgeList(bad);
#elif ENTRY == 5
        (void)g.hasEdge(x, y);
#elif ENTRY == 6
        (void)g.getOutNeighbours(bad);
#elif ENTRY == 7 && KIND == 4
        (void)g.getInDegree(bad);
#elif ENTRY == 8 && KIND == 4
        (void)g.getOutDegree(bad);
#elif ENTRY == 7 && KIND == 5
        (void)g.getDegree(bad, f1);
#elif ENTRY == 20
        { ASSUME(n > 0); unsigned m = nd(n); want = WANT_INV; g.resize(m); }
#elif ENTRY == 22
        { ASSUME(n > 0); unsigned a = nd(n), b = nd(n); ASSUME(!C[a][b]); want = WANT_INV; (void)g.getEdgeWeight(a, b); }
#elif ENTRY == 40
        (void)algorithms::findGeodesicsDijkstra(g, bad);
#endif
#endif
    } catch (std::out_of_range &) { got = 1; } catch (std::invalid_argument &) { got = 2; } catch (std::exception &) { got = 3; } catch (...) { got = 4; }

    if (want == WANT_OOR) CHECK(got == 1, "a vertex index >= getSize() is rejected with std::out_of_range");
    else CHECK(got == 2, "the documented invalid call is rejected with std::invalid_argument");
    bool same = g.adjacencyList == before.adjacencyList && g.edgeNumber == before.edgeNumber && g.edgeLabels == before.edgeLabels && g.size == before.size;
#if KIND == 2 || KIND == 3
    same = same && g.totalEdgeNumber == before.totalEdgeNumber;
#elif KIND >= 4
    same = same && g.totalWeight == before.totalWeight;
#endif
    CHECK(same, "after a rejected call the graph is identical to what it was before");
    if (cnt > 0) REACH("rejected call on a graph that has edges");
    REACH("end of harness");
}
