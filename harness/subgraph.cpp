// C10: getSubgraph / getSubgraphWithRemap return exactly the induced subgraph.  -DUND=0/1, -DQ=0 (getSubgraph) / 1 (WithRemap)
// The subset S is an arbitrary set of vertices inserted in an arbitrary order (the model's unordered_set iterates in insertion
// order, so every iteration order of a real unordered_set is covered).
#include "vh.h"
#include "BaseGraph/directed_graph.hpp"
#include "BaseGraph/undirected_graph.hpp"
#include <unordered_map>
#include <unordered_set>
#include "BaseGraph/algorithms/topology.hpp"
using namespace BaseGraph;
#ifndef UND
#define UND 0
#endif
#ifndef Q
#define Q 0
#endif
#if UND
typedef LabeledUndirectedGraph<int> G;
#else
typedef LabeledDirectedGraph<int> G;
#endif

extern "C" void harness() {
    const unsigned n = N;
    G g(n);
    unsigned C[NM][NM]; int lab[NM][NM];
#if UND
    size_t cnt = vh_build_undirected(g, n, C);
#else
    size_t cnt = vh_build_directed(g, n, C);
#endif
    g.edgeNumber = cnt;
    for (unsigned i = 0; i < NM; ++i) for (unsigned j = (UND ? i : 0); j < NM; ++j) if (i < n && j < n && C[i][j]) { int l = (int)nd(4) + 1; lab[i][j] = l; if (UND) lab[j][i] = l; vh_label_set(g, i, j, l); }
    // arbitrary subset, arbitrary insertion order
    unsigned in[NM]; for (unsigned v = 0; v < NM; ++v) in[v] = 0;
    std::unordered_set<VertexIndex> S;
#ifdef SEQLEN
    // sub-query with a concrete subset in a concrete iteration order (the union over all ordered subsets is the whole space)
    const unsigned sz = SEQLEN; static const unsigned seq[5] = {SEQ0, SEQ1, SEQ2, SEQ3, 0};
    for (unsigned c = 0; c < NM; ++c) if (c < sz) in[seq[c]] = 1;
    vh_set_with_order(S, seq, sz);
#else
    unsigned sz = nd(n + 1);
    { unsigned seq[NM + 1]; for (unsigned c = 0; c < NM; ++c) if (c < sz) { unsigned v = nd(n); ASSUME(!in[v]); in[v] = 1; seq[c] = v; } vh_set_with_order(S, seq, sz); }
#endif
    size_t induced = 0;
    for (unsigned i = 0; i < NM; ++i) for (unsigned j = (UND ? i : 0); j < NM; ++j) if (i < n && j < n && in[i] && in[j]) induced += C[i][j];
    if (sz == 0) REACH("empty subset"); if (sz == n && n) REACH("full subset"); if (sz && sz < n) REACH("proper subset");
    unsigned i = n ? nd(n) : 0, j = n ? nd(n) : 0;
#ifdef PRE_REJECT
    // an earlier request that was rejected (the valid vertex PRE_REJECT met before an out-of-range one) must not influence later requests
    if (n) {
        std::unordered_set<VertexIndex> bad; { unsigned bs[2]; bs[0] = PRE_REJECT; bs[1] = n; vh_set_with_order(bad, bs, 2); }
        bool threw = false;
#if Q == 0
        try { (void)algorithms::getSubgraph(g, bad); } catch (std::out_of_range &) { threw = true; }
#else
        try { (void)algorithms::getSubgraphWithRemap(g, bad); } catch (std::out_of_range &) { threw = true; }
#endif
        CHECK(threw, "a vertex subset with an out-of-range member is rejected with std::out_of_range");
        REACH("a rejected request preceded this one");
    }
#endif
#if Q == 0
    G sub = algorithms::getSubgraph(g, S);
    CHECK(sub.getSize() == n, "getSubgraph keeps the vertex count of the original");
    CHECK(sub.getEdgeNumber() == induced, "getSubgraph has as many edges as the induced subgraph - nothing extra");
    if (n) {
        bool want = C[i][j] && in[i] && in[j];
        CHECK(sub.hasEdge(i, j) == want, "getSubgraph has exactly the edges with both endpoints in S");
        if (want) { CHECK(sub.getEdgeLabel(i, j) == lab[i][j], "the edges keep their labels"); REACH("label of an induced edge observed"); }
        if (C[i][j] && !want) REACH("an edge leaving S was dropped");
    }
#else
    auto res = algorithms::getSubgraphWithRemap(g, S);
    G &sub = res.first; auto &map = res.second;
    CHECK(sub.getSize() == sz, "the remapped subgraph has |S| vertices");
    CHECK(map.size() == sz, "the map has one entry per member of S");
    CHECK(sub.getEdgeNumber() == induced, "the remapped subgraph has as many edges as the induced subgraph");
    if (n) {
        CHECK(map.count(i) == (in[i] ? 1u : 0u), "the map's keys are exactly the members of S");
        if (in[i] && in[j]) {
            unsigned mi = map.at(i), mj = map.at(j);
            CHECK(mi < sz && mj < sz, "the map's values lie in 0..|S|-1");
            if (i != j) { CHECK(mi != mj, "the map is one-to-one"); REACH("two different members compared"); }
            CHECK(sub.hasEdge(mi, mj) == (C[i][j] != 0), "under the map the subgraph has exactly the induced edges");
            if (C[i][j]) { CHECK(sub.getEdgeLabel(mi, mj) == lab[i][j], "the edges keep their labels"); REACH("label of a remapped edge observed"); }
        }
    }
#endif
    REACH("end of harness");
}
