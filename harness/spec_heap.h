// Real-native replays with -DSPEC_HEAP: std::make_heap / push_heap / pop_heap are replaced by a conforming implementation that
// realises the arrangement the solver chose in the specification-level heap model (model/std/algorithm): after each call the
// range is *a* heap for the comparator, as the C++ standard requires - not necessarily the one libstdc++ would leave.
// The choices come from the replay's second vector ("--heap ..."); a choice that is not a permutation or does not give a heap
// stops the replay as invalid. Include before the BaseGraph headers.
#pragma once
#include <algorithm>
#include <queue>
#include <vector>
#include <iterator>
#include <cstdio>
#include <cstdlib>
extern "C" unsigned __VERIFIER_nondet_uint_unlogged(void);
extern "C" void __VERIFIER_assert(int, const char *);
#define VH_PRE(c, m) do { bool c_ = (c); __VERIFIER_assert(c_, m); if (!c_) { fflush(stdout); _Exit(1); } } while (0)   /* a broken precondition ends the run */
namespace std {
template <class It, class C> bool vh_is_heap(It f, long n, C comp) { for (long i = 1; i < n; ++i) if (comp(f[(i - 1) / 2], f[i])) return false; return true; }
template <class It, class C> void vh_permute_to_heap(It f, long n, C comp) {
    typedef typename iterator_traits<It>::value_type T;
    vector<T> old(f, f + n); vector<unsigned> p(n);
    for (long i = 0; i < n; ++i) { p[i] = __VERIFIER_nondet_uint_unlogged(); if (p[i] >= (unsigned long)n) { printf("REPLAY: heap choice out of range\n"); fflush(stdout); _Exit(3); } }
    for (long i = 0; i < n; ++i) for (long j = 0; j < i; ++j) if (p[i] == p[j]) { printf("REPLAY: heap choice is not a permutation\n"); fflush(stdout); _Exit(3); }
    for (long i = 0; i < n; ++i) f[i] = old[p[i]];
    if (!vh_is_heap(f, n, comp)) { printf("REPLAY: heap choice is not a heap\n"); fflush(stdout); _Exit(3); }
}
struct vh_less { template <class T> bool operator()(const T &a, const T &b) const { return a < b; } };
template <class It, class C> void vh_make_heap(It f, It l, C comp) { vh_permute_to_heap(f, l - f, comp); }
template <class It> void vh_make_heap(It f, It l) { vh_make_heap(f, l, vh_less()); }
template <class It, class C> void vh_pop_heap(It f, It l, C comp) {
    long n = l - f;
    VH_PRE(n > 0, "UB: pop_heap on an empty range");
    VH_PRE(vh_is_heap(f, n, comp), "UB: pop_heap: range is not a heap with respect to the comparator used");
    auto top = f[0]; f[0] = f[n - 1]; f[n - 1] = top;
    vh_permute_to_heap(f, n - 1, comp);
}
template <class It> void vh_pop_heap(It f, It l) { vh_pop_heap(f, l, vh_less()); }
template <class It, class C> void vh_push_heap(It f, It l, C comp) {
    long n = l - f;
    VH_PRE(n > 0, "UB: push_heap on an empty range");
    VH_PRE(vh_is_heap(f, n - 1, comp), "UB: push_heap: [first, last-1) is not a heap with respect to the comparator used");
    vh_permute_to_heap(f, n, comp);
}
template <class It> void vh_push_heap(It f, It l) { vh_push_heap(f, l, vh_less()); }
} // namespace std
#undef VH_PRE
#define make_heap vh_make_heap
#define pop_heap vh_pop_heap
#define push_heap vh_push_heap
