// C13 (text edge lists) and C15 (arbitrary text) over the in-memory stream and string models.   -DQ=<obligation>
//   Q=0  tokeniser findEdgeFromString on an arbitrary line: three tokens equal the reference split / fewer than two tokens -> out_of_range
//   Q=1  loadTextEdgeList on an arbitrary WELL-FORMED file built from a symbolic structure (comment lines, any horizontal whitespace)
//   Q=2  loadTextVertexLabeledEdgeList: names numbered in order of first appearance, name table names[index(x)] = x
//   Q=3  writeTextEdgeList: header comment, then one "src dst [label]" line per enumerated edge
//   Q=4  loadTextEdgeList on ARBITRARY bytes: returns or throws something derived from std::exception, never out of bounds (C15)
#include "vh.h"
#include "BaseGraph/fileio.hpp"
using namespace BaseGraph;
#ifndef Q
#define Q 0
#endif
#ifndef UND
#define UND 0
#endif
#ifndef LAB
#define LAB 0 /* 0: NoLabel graph, 1: int labels (single digit) */
#endif
#if LAB
typedef int L;
#else
typedef NoLabel L;
#endif
#if UND
typedef LabeledUndirectedGraph<L> G;
#define GT LabeledUndirectedGraph
#else
typedef LabeledDirectedGraph<L> G;
#define GT LabeledDirectedGraph
#endif
#define NAMECH(k) ((unsigned char)((k) == 0 ? 'a' : (k) == 1 ? 'b' : '#'))
#ifndef LINES
#define LINES 2
#endif
#ifndef LLEN
#define LLEN 6
#endif

#ifdef VERIF_MODEL
static size_t file_len() { return std::verif_the_file.len; }
static unsigned file_byte(size_t k) { return std::verif_the_file.b[k]; }
static void file_set(const unsigned char *b, size_t len) { for (size_t k = 0; k < VERIF_FILE_CAP; ++k) if (k < len) std::verif_the_file.b[k] = b[k]; std::verif_the_file.len = len; std::verif_the_file.openable = 1; }
#define FNAME "f"
#else
#include <cstdio>
#include <unistd.h>
static char fname_buf[64];
static const char *fname() { if (!fname_buf[0]) std::snprintf(fname_buf, sizeof fname_buf, "/tmp/vf_txt_%d.txt", (int)getpid()); return fname_buf; }
#define FNAME fname()
static size_t file_len() { FILE *f = std::fopen(fname(), "rb"); if (!f) return 0; std::fseek(f, 0, SEEK_END); long n = std::ftell(f); std::fclose(f); return (size_t)n; }
static unsigned file_byte(size_t k) { FILE *f = std::fopen(fname(), "rb"); std::fseek(f, (long)k, SEEK_SET); int c = std::fgetc(f); std::fclose(f); return (unsigned)c; }
static void file_set(const unsigned char *b, size_t len) { FILE *f = std::fopen(fname(), "wb"); std::fwrite(b, 1, len, f); std::fclose(f); }
#endif
static bool is_ws(char c) { return c == ' ' || c == '\t' || c == '\n' || c == '\r' || c == '\f' || c == '\v'; }
static char ws_char() { return ndb() ? ' ' : '\t'; }
static int label_from_string(const std::string &s) { return s.size() >= 1 ? (int)(s[0] - '0') : -1; }   // the rest of the line may end in blanks

extern "C" void harness() {
#if Q == 0
    // ---- tokeniser on an arbitrary line over {'0','1','a',' ','\t','#'}
    static const char ALPHA[6] = {'0', '1', 'a', ' ', '\t', '#'};
    char raw[LLEN]; unsigned len = nd(LLEN + 1);
    std::string line;
    for (unsigned k = 0; k < LLEN; ++k) { raw[k] = ALPHA[nd(6)]; if (k < len) line.push_back(raw[k]); }
    // reference split: first two maximal non-blank runs; remainder from the next non-blank to the end of the line
    unsigned p = 0; unsigned t1s = 0, t1e = 0, t2s = 0, t2e = 0, t3s = 0; unsigned ntok = 0; bool rest = false;
    while (p < len && is_ws(raw[p])) ++p;
    if (p < len) { t1s = p; while (p < len && !is_ws(raw[p])) ++p; t1e = p; ntok = 1; }
    while (p < len && is_ws(raw[p])) ++p;
    if (p < len) { t2s = p; while (p < len && !is_ws(raw[p])) ++p; t2e = p; ntok = 2; }
    while (p < len && is_ws(raw[p])) ++p;
    if (p < len) { t3s = p; rest = true; }
    bool threw = false; bool other = false; std::array<std::string, 3> tok;
    try { tok = io::findEdgeFromString(line); } catch (std::out_of_range &) { threw = true; } catch (...) { other = true; }
    CHECK(!other, "the tokeniser throws nothing but std::out_of_range");
    if (ntok >= 2) {
        CHECK(!threw, "a line with two tokens is accepted");
        if (!threw) {
            bool ok = tok[0].size() == t1e - t1s && tok[1].size() == t2e - t2s && tok[2].size() == (rest ? len - t3s : 0);
            for (unsigned k = 0; k < LLEN; ++k) if (ok) { if (k < tok[0].size() && tok[0][k] != raw[t1s + k]) ok = false; if (k < tok[1].size() && tok[1][k] != raw[t2s + k]) ok = false; if (k < tok[2].size() && tok[2][k] != raw[t3s + k]) ok = false; }   // (sizes were compared first, so the indices stay inside the line)
            CHECK(ok, "the three returned strings are the first two whitespace-delimited tokens and the rest of the line");
            if (rest) REACH("line with a label part"); if (t1s > 0) REACH("line with leading whitespace");
        }
    } else { if (!threw) REACH("line with fewer than two tokens accepted"); else REACH("line with fewer than two tokens rejected with std::out_of_range"); }
#elif Q == 1 || Q == 2
    // ---- a well-formed file: LINES lines, each a comment ('#' + one byte) or  [ws] tok1 ws+ tok2 [ws] [label] '\n'
    unsigned char buf[LINES * 10 + 1]; size_t len = 0;
    unsigned ea[LINES], eb[LINES]; int el[LINES]; unsigned isedge[LINES]; unsigned nedges = 0;
    for (unsigned r = 0; r < LINES; ++r) {
        isedge[r] = nd(2); ea[r] = nd(3); eb[r] = nd(3); el[r] = (int)nd(10);
        if (!isedge[r]) { buf[len++] = '#'; buf[len++] = ndb() ? 'x' : ' '; }
        else {
#if Q == 1
            if (ndb()) buf[len++] = ws_char();
            buf[len++] = (unsigned char)('0' + ea[r]);
#else
            // vertex names 'a', 'b', '#': a name may start with '#' as long as it does not start the line (then the line is a comment)
            if (ndb() || ea[r] == 2) buf[len++] = ws_char();
            buf[len++] = NAMECH(ea[r]);
#endif
            buf[len++] = ws_char(); if (ndb()) buf[len++] = ws_char();
#if Q == 1
            buf[len++] = (unsigned char)('0' + eb[r]);
#else
            buf[len++] = NAMECH(eb[r]);
#endif
#if LAB
            buf[len++] = ws_char(); if (ndb()) buf[len++] = ws_char(); buf[len++] = (unsigned char)('0' + el[r]);   // one or two blanks before the label
#endif
            if (ndb()) buf[len++] = ws_char();
            ++nedges;
        }
        if (r + 1 < LINES || ndb()) buf[len++] = '\n';          // the last line may lack its newline
    }
    file_set(buf, len);
#if LAB
    auto fromString = [](const std::string &s) { return label_from_string(s); };
#if Q == 1
    auto res = io::loadTextEdgeList<GT, L>(FNAME, fromString);
#else
    auto res = io::loadTextVertexLabeledEdgeList<GT, L>(FNAME, fromString);
#endif
#else
#if Q == 1
    auto res = io::loadTextEdgeList<GT, L>(FNAME);
#else
    auto res = io::loadTextVertexLabeledEdgeList<GT, L>(FNAME);
#endif
#endif
    G g = res.first; std::vector<std::string> names = res.second;   // separate typed objects (accesses resolve to direct paths)
    // expected: the edge lines in order, added with force
#if Q == 2
    // names are numbered in order of first appearance
    unsigned idx[3] = {9, 9, 9}; unsigned next = 0;
    for (unsigned r = 0; r < LINES; ++r) if (isedge[r]) { if (idx[ea[r]] == 9) idx[ea[r]] = next++; if (idx[eb[r]] == 9) idx[eb[r]] = next++; }
#define IDX(x) idx[x]
    const unsigned want_n = next;
#else
#define IDX(x) (x)
    unsigned maxv = 0; for (unsigned r = 0; r < LINES; ++r) if (isedge[r]) { if (ea[r] > maxv) maxv = ea[r]; if (eb[r] > maxv) maxv = eb[r]; }
    const unsigned want_n = nedges ? maxv + 1 : 0;
#endif
    CHECK(g.getSize() == want_n, "the loaded graph has 1+largest-used-index vertices (comment lines skipped)");
    CHECK(g.getEdgeNumber() == nedges, "one edge per edge line");
    CHECK(names.size() == want_n, "one name per vertex");
    unsigned pi = nd(3), pj = nd(3);
    if (pi < want_n && pj < want_n) {
        unsigned want = 0; unsigned last = LINES;
        for (unsigned r = 0; r < LINES; ++r) if (isedge[r] && ((IDX(ea[r]) == pi && IDX(eb[r]) == pj) || (UND && IDX(ea[r]) == pj && IDX(eb[r]) == pi))) { ++want; last = r; }
        unsigned occ = 0; for (VertexIndex x : g.getOutNeighbours(pi)) if (x == pj) ++occ;
        CHECK(occ == want, "every edge line's edge is present (any run of spaces or tabs before, between and after the tokens)");
#if LAB
        if (want) { CHECK(g.getEdgeLabel(pi, pj) == el[last], "the rest of the line is handed to the label parser"); REACH("label of a loaded edge observed"); }
#endif
        if (want) REACH("loaded edge observed");
    }
#if Q == 2
    { unsigned x = nd(3); if (idx[x] != 9) { CHECK(names[idx[x]].size() == 1 && names[idx[x]][0] == (char)NAMECH(x), "names[index(x)] = x for every vertex name"); if (idx[x] > 0) REACH("name of a later vertex observed"); if (x == 2) REACH("vertex name starting with '#' observed"); } }
#endif
    if (nedges == LINES) REACH("file of edge lines only"); if (nedges < LINES && nedges) REACH("file mixing comment and edge lines");
#elif Q == 3
    // ---- writer: header comment, then one line per enumerated edge
    const unsigned n = N;
    G g(n);
    unsigned C[NM][NM]; int lab[NM][NM]; unsigned LST[NM][VH_LC], LEN[NM];
    for (unsigned i = 0; i < NM; ++i) LEN[i] = 0;
#if UND
    size_t cnt = vh_build_undirected(g, n, C, LST, LEN);
#else
    size_t cnt = vh_build_directed(g, n, C, LST, LEN);
#endif
    g.edgeNumber = cnt; ASSUME(cnt <= EMAXW);
    for (unsigned i = 0; i < NM; ++i) for (unsigned j = (UND ? i : 0); j < NM; ++j) if (i < n && j < n && C[i][j]) { int l = (int)nd(10); lab[i][j] = l; if (UND) lab[j][i] = l;
#if LAB
        vh_label_set(g, i, j, l);
#endif
    }
#ifdef VERIF_MODEL
    std::verif_the_file.openable = 1;
#endif
#if LAB
    io::writeTextEdgeList<GT, L>(g, FNAME, [](const int &l) { return std::to_string(l); });
    const unsigned recl = 6;
#else
    io::writeTextEdgeList(g, FNAME);
    const unsigned recl = 4;
#endif
    static const char HDR[] = "# Vertex1 Vertex2 Label\n";
    CHECK(file_len() == 24 + cnt * recl, "the file is the header comment plus one line per edge");
    { unsigned k = nd(24); CHECK(file_byte(k) == (unsigned char)HDR[k], "the file starts with the header comment line"); }
    unsigned r = nd(EMAXW);
    if (r < cnt) {
        unsigned k = 0; unsigned a = 0, b = 0;
        for (unsigned v = 0; v < NM; ++v) for (unsigned c = 0; c < VH_LC; ++c) if (v < n && c < LEN[v] && (!UND || v <= LST[v][c])) { if (k == r) { a = v; b = LST[v][c]; } ++k; }
        size_t at = 24 + r * recl;
        CHECK(file_byte(at) == '0' + a && file_byte(at + 1) == ' ' && file_byte(at + 2) == '0' + b, "each line is 'src dst' in decimal, separated by one space");
#if LAB
        CHECK(file_byte(at + 3) == ' ' && file_byte(at + 4) == (unsigned)('0' + lab[a][b]) && file_byte(at + 5) == '\n', "followed by a space, the label's text form and a line break");
#else
        CHECK(file_byte(at + 3) == '\n', "followed by a line break");
#endif
        if (r > 0) REACH("a later line observed");
    }
#elif Q == 4
    // ---- arbitrary bytes
    static const unsigned char ALPHA[10] = {'0', '1', '9', '-', '+', ' ', '\t', '#', 'x', '\n'};
    unsigned char buf[LLEN]; unsigned len = nd(LLEN + 1);
    for (unsigned k = 0; k < LLEN; ++k) {
#ifdef FULLBYTES
        buf[k] = (unsigned char)nd(256);
#else
        unsigned a = nd(11); buf[k] = a < 10 ? ALPHA[a] : 0x80;
#endif
    }
    file_set(buf, len);
    int outcome = 0;
    try { auto res = io::loadTextEdgeList<GT, L>(FNAME); outcome = 1; if (res.first.getEdgeNumber() > 0) REACH("arbitrary bytes that load as a graph with an edge"); }
    catch (std::exception &) { outcome = 2; }
    catch (...) { outcome = 3; }
    CHECK(outcome == 1 || outcome == 2, "arbitrary text either loads or throws an exception derived from std::exception");
    if (outcome == 2) REACH("arbitrary bytes rejected with a std::exception");
#endif
    REACH("end of harness");
}
