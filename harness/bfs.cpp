// C11 (breadth-first geodesics) and C19 (work bounds) for the BFS searches of paths.hpp.
//   -DUND=0/1  graph class (LabeledDirectedGraph<NoLabel> / LabeledUndirectedGraph<NoLabel> behind a counting wrapper)
//   -DALG=0 findVertexPredecessors  1 findAllVertexPredecessors  2 findGeodesics  3 findAllGeodesics
//         4 findGeodesicsFromVertex 5 findAllGeodesicsFromVertex 6 findPathToVertexFromPredecessors(graph, destination, preds)
//   -DFAMILY=1: layered graphs 1-2-2-2-2 (9 vertices), every subset and order of edges between consecutive layers (C19 thorough)
// The searches are templates over the graph type, so the neighbourhood scans are counted by a harness-defined class that
// shadows getOutNeighbours - no hook in /repo is needed.
#include "vh.h"
#include "BaseGraph/directed_graph.hpp"
#include "BaseGraph/undirected_graph.hpp"
#include "BaseGraph/algorithms/paths.hpp"
using namespace BaseGraph;
#ifndef UND
#define UND 0
#endif
#ifndef ALG
#define ALG 0
#endif
static size_t scans;
#if UND
template <typename L> struct CountingGraph : LabeledUndirectedGraph<L> {
    using B = LabeledUndirectedGraph<L>;
    CountingGraph(size_t n = 0) : B(n) {}
    const Successors &getOutNeighbours(VertexIndex v) const { ++scans; return B::getOutNeighbours(v); }
};
#else
template <typename L> struct CountingGraph : LabeledDirectedGraph<L> {
    using B = LabeledDirectedGraph<L>;
    CountingGraph(size_t n = 0) : B(n) {}
    const Successors &getOutNeighbours(VertexIndex v) const { ++scans; return B::getOutNeighbours(v); }
};
#endif
typedef CountingGraph<NoLabel> G;
static const size_t INF = algorithms::BASEGRAPH_VERTEX_MAX;

// is `p` a walk from s to t along existing edges with exactly `hops` edges?
static bool valid_path(const algorithms::Path &p, unsigned C[NM][NM], unsigned s, unsigned t, size_t hops) {
    if (p.size() != hops + 1) return false;
    bool ok = true; unsigned prev = 0; unsigned k = 0;
    for (VertexIndex v : p) {
        if (v >= N) return false;
        if (k == 0) { if (v != s) ok = false; } else if (!C[prev][v]) ok = false;
        prev = v; ++k;
    }
    return ok && prev == t;
}

extern "C" void harness() {
    const unsigned n = N;
    G g(n);
    unsigned C[NM][NM];
    size_t E = 0;                        // total length of all neighbour lists
#if defined(FAMILY)
    // layers {0} {1,2} {3,4} {5,6} {7,8}: every subset / order of forward edges between consecutive layers
    for (unsigned i = 0; i < NM; ++i) for (unsigned j = 0; j < NM; ++j) C[i][j] = 0;
    for (unsigned i = 0; i < n; ++i) {
        unsigned lo = i == 0 ? 1 : (i % 2 ? i + 2 : i + 1);     // first vertex of the next layer
        unsigned vals[VH_LC]; unsigned len = 0;
        if (lo + 1 < n) { unsigned pat = nd(5);                 // none, {lo}, {lo+1}, {lo,lo+1}, {lo+1,lo}
            if (pat == 1) { vals[0] = lo; len = 1; } else if (pat == 2) { vals[0] = lo + 1; len = 1; } else if (pat == 3) { vals[0] = lo; vals[1] = lo + 1; len = 2; } else if (pat == 4) { vals[0] = lo + 1; vals[1] = lo; len = 2; }
            for (unsigned c = 0; c < 2; ++c) if (c < len) C[i][vals[c]] = 1; }
        vh_list_set(g, i, vals, len); E += len;
    }
    g.edgeNumber = E;
    const unsigned s = 0;
#else
#if UND
    size_t pairs = vh_build_undirected(g, n, C); g.edgeNumber = pairs;
    for (unsigned i = 0; i < NM; ++i) for (unsigned j = 0; j < NM; ++j) if (i < n && j < n) E += C[i][j];
#else
    E = vh_build_directed(g, n, C); g.edgeNumber = E;
#endif
#ifdef FIXS
    const unsigned s = FIXS;            // sub-query with a fixed source
#else
    unsigned s = nd(n);
#endif
#endif
    // reference hop distances and numbers of shortest paths by n rounds of relaxation over the adjacency matrix
    size_t ref[NM]; size_t nsp[NM];
    for (unsigned v = 0; v < NM; ++v) { ref[v] = INF; nsp[v] = 0; }
    ref[s] = 0; nsp[s] = 1;
    for (unsigned round = 1; round < NM; ++round)
        for (unsigned v = 0; v < NM; ++v) if (v < n && ref[v] == INF) {
            size_t ways = 0;
            for (unsigned u = 0; u < NM; ++u) if (u < n && C[u][v] && ref[u] == round - 1) ways += nsp[u];
            if (ways) { ref[v] = round; nsp[v] = ways; }
        }
#ifdef FIXT
    const unsigned t = FIXT;             // sub-query with a fixed destination
#else
    unsigned t = nd(n);                  // observed vertex / destination
#endif
    scans = 0;

#if ALG == 0
    auto r = algorithms::findVertexPredecessors(g, s);
    CHECK(scans <= n, "findVertexPredecessors scans each vertex's neighbourhood at most once");
    CHECK(r.first.size() == n && r.second.size() == n, "one distance and one predecessor per vertex");
    CHECK(r.first[t] == ref[t], "findVertexPredecessors reports the true minimum hop count (sentinel when unreachable)");
    if (t != s && ref[t] != INF) { unsigned p = r.second[t]; CHECK(p < n && C[p][t] && ref[p] + 1 == ref[t], "the predecessor is an in-neighbour one hop closer to the source"); REACH("predecessor of a reached vertex observed"); }
    if (ref[t] == INF) { CHECK(r.second[t] == INF, "an unreachable vertex carries the sentinel as predecessor"); REACH("unreachable vertex observed"); }
    if (ref[t] == 2) REACH("vertex at distance two observed");
#elif ALG == 1
    auto r = algorithms::findAllVertexPredecessors(g, s);
    CHECK(scans <= n + E, "findAllVertexPredecessors scans neighbourhoods at most V+E times");
    CHECK(r.first[t] == ref[t], "findAllVertexPredecessors reports the true minimum hop count");
    {   // the predecessor list is exactly the set of in-neighbours one hop closer, without repeats
        unsigned u = nd(n); unsigned occ = 0; size_t len = 0;
        for (VertexIndex x : r.second[t]) { ++len; if (x == u) ++occ; }
        bool is_pred = t != s && ref[t] != INF && C[u][t] && ref[u] != INF && ref[u] + 1 == ref[t];
        CHECK(occ == (is_pred ? 1u : 0u), "the predecessor list holds exactly the in-neighbours one hop closer, each once");
        size_t want = 0; for (unsigned q = 0; q < NM; ++q) if (q < n && t != s && ref[t] != INF && C[q][t] && ref[q] != INF && ref[q] + 1 == ref[t]) ++want;
        CHECK(len == want, "the predecessor list holds nothing else");
        if (want > 1) REACH("vertex with several shortest-path predecessors observed");
    }
#elif ALG == 2
    auto p = algorithms::findGeodesics(g, s, t);
    if (s == t) { CHECK(p.size() == 1 && p.front() == s, "the geodesic from a vertex to itself is [source]"); }
    else if (ref[t] == INF) { CHECK(p.empty(), "the geodesic to an unreachable vertex is empty"); REACH("unreachable destination"); }
    else { CHECK(valid_path(p, C, s, t, ref[t]), "findGeodesics returns a walk along existing edges with exactly the minimum number of hops"); if (ref[t] == 2) REACH("geodesic of two hops"); }
#elif ALG == 3 || ALG == 5
#if ALG == 3
    auto paths = algorithms::findAllGeodesics(g, s, t);
#else
    auto all = algorithms::findAllGeodesicsFromVertex(g, s);
    CHECK(all.size() == n, "one path set per vertex");
    auto &paths = all[t];
#endif
    if (s == t) { CHECK(paths.size() == 1 && paths.front().size() == 1 && paths.front().front() == s, "the only geodesic from a vertex to itself is [source]"); }
    else if (ref[t] == INF) { CHECK(paths.empty(), "no geodesic to an unreachable vertex"); }
    else {
        CHECK(paths.size() == nsp[t], "all geodesics: as many paths as there are shortest paths - none missing, none extra");
        unsigned a = nd(NM), b = nd(NM); unsigned k = 0; algorithms::Path pa, pb;
        for (const auto &p : paths) { if (k == a) pa = p; if (k == b) pb = p; ++k; }
        if (a < paths.size()) CHECK(valid_path(pa, C, s, t, ref[t]), "every returned path is a valid shortest path");
        if (a < paths.size() && b < paths.size() && a != b) { CHECK(!(pa == pb), "no shortest path is returned twice"); REACH("two returned paths compared"); }
    }
#elif ALG == 4
    auto all = algorithms::findGeodesicsFromVertex(g, s);
    CHECK(all.size() == n, "one path per vertex");
    if (s == t) CHECK(all[t].size() == 1 && all[t].front() == s, "the geodesic from a vertex to itself is [source]");
    else if (ref[t] == INF) CHECK(all[t].empty(), "the geodesic to an unreachable vertex is empty");
    else CHECK(valid_path(all[t], C, s, t, ref[t]), "findGeodesicsFromVertex returns shortest walks along existing edges");
#elif ALG == 6
    auto r = algorithms::findVertexPredecessors(g, s);
    if (ref[t] != INF) { auto p = algorithms::findPathToVertexFromPredecessors(g, t, r); CHECK(valid_path(p, C, s, t, ref[t]), "the path rebuilt from the predecessors (source found from the distances) is a shortest walk"); }
    else { bool threw = false; try { (void)algorithms::findPathToVertexFromPredecessors(g, t, r); } catch (std::runtime_error &) { threw = true; } CHECK(threw, "rebuilding a path to an unreachable vertex throws std::runtime_error"); REACH("unreachable destination"); }
#endif
    REACH("end of harness");
}
