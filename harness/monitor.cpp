// C18: const operations write nothing that is shared.  The harness builds an arbitrary valid graph, freezes it
// (__VERIFIER_freeze) and runs one const entry point; the translator (ll2c, monitor mode) puts an assertion in front of every
// store / memcpy / memset that it does not land in the frozen object or in mutable namespace-scope state, and in front of every
// load of mutable namespace-scope state.  If nothing shared is written and nothing mutable besides the graph is read, each call
// is a function of the graph and its arguments: concurrent readers cannot race and obtain the single-threaded result.
//   -DKIND=0..5 (class), -DENTRY=<const entry point>;  ENTRY=99 is the control: a mutator after the freeze MUST be flagged.
#include "vh.h"
#include "BaseGraph/directed_graph.hpp"
#include "BaseGraph/undirected_graph.hpp"
#include "BaseGraph/directed_multigraph.hpp"
#include "BaseGraph/undirected_multigraph.hpp"
#include "BaseGraph/directed_weighted_graph.hpp"
#include "BaseGraph/undirected_weighted_graph.hpp"
#include "BaseGraph/algorithms/paths.hpp"
#include <unordered_map>
#include <unordered_set>
#include "BaseGraph/algorithms/topology.hpp"
#include "BaseGraph/fileio.hpp"
using namespace BaseGraph;
#ifndef KIND
#define KIND 0
#endif
#if KIND == 0
typedef LabeledDirectedGraph<int> G; typedef int L;
#define UND 0
#define GT LabeledDirectedGraph
#elif KIND == 1
typedef LabeledUndirectedGraph<int> G; typedef int L;
#define UND 1
#define GT LabeledUndirectedGraph
#elif KIND == 2
typedef DirectedMultigraph G; typedef unsigned L;
#define UND 0
#elif KIND == 3
typedef UndirectedMultigraph G; typedef unsigned L;
#define UND 1
#elif KIND == 4
typedef DirectedWeightedGraph G; typedef double L;
#define UND 0
#elif KIND == 5
typedef UndirectedWeightedGraph G; typedef double L;
#define UND 1
#endif
#ifndef ENTRY
#define ENTRY 0
#endif
#ifdef VERIF_MODEL
static unsigned long harness_scratch;    // where results go (exempt from the monitor by name)
#else
#include <thread>
static thread_local unsigned long harness_scratch;
#endif
#define USE(x) harness_scratch += (unsigned long)(x)

extern "C" void harness() {
    const unsigned n = N;
    G g(n);
    unsigned C[NM][NM];
#if UND
    size_t cnt = vh_build_undirected(g, n, C);
#else
    size_t cnt = vh_build_directed(g, n, C);
#endif
    g.edgeNumber = cnt;
    {
#if KIND == 2 || KIND == 3
        size_t total = 0;
#elif KIND >= 4
        long double total = 0;
#endif
        for (unsigned i = 0; i < NM; ++i) for (unsigned j = (UND ? i : 0); j < NM; ++j) if (i < n && j < n && C[i][j]) {
#if KIND >= 4
            L l = VH_W[nd(4)];
#elif KIND >= 2
            L l = 1 + nd(3);
#else
            L l = (int)nd(4);
#endif
            vh_label_set(g, i, j, l);
#if KIND >= 2
            total += l;
#endif
        }
#if KIND == 2 || KIND == 3
        g.totalEdgeNumber = total;
#elif KIND >= 4
        g.totalWeight = total;
#endif
    }
    unsigned a = nd(n), b = nd(n); bool f = ndb();
    (void)a; (void)b; (void)f;
#if ENTRY == 10 || ENTRY == 11
    std::unordered_set<VertexIndex> S; S.insert(a); if (f) S.insert(b);
#endif
#ifdef VERIF_MODEL
    std::verif_the_file.openable = 1;
#endif
#ifndef NO_PRESTEP
    // one arbitrary mutator before the graph is shared: auxiliary state a class may keep besides the documented representation
    // (dirty flags, hints, counters) is then in whatever condition a mutation leaves it, not only in its freshly-built condition
    if (ENTRY != 99) { unsigned pa = nd(n), pb = nd(n); unsigned which = nd(3);
        if (which == 1) { g.removeEdge(pa, pb); REACH("the graph lost an edge before it was shared"); }
#if KIND >= 4
        else if (which == 2) g.addEdge(pa, pb, 1.0);
#else
        else if (which == 2) g.addEdge(pa, pb);
#endif
    }
#endif
    const G &cg = g;
    __VERIFIER_freeze(&g);
    // ------------------------------------------------------------------ one const entry point on the shared graph
    // (real-native replay: the same entry point runs in two threads under ThreadSanitizer; the writers use distinct files)
#ifndef VERIF_MODEL
    auto work = [&](const char *fname) {
        try {
#define FILE_NAME fname
#else
#define FILE_NAME "f"
#endif
#if ENTRY == 0
    USE(cg.getSize()); USE(cg.getEdgeNumber()); USE(cg.hasEdge(a, b));
#elif ENTRY == 1
    for (VertexIndex x : cg.getOutNeighbours(a)) USE(x);
#elif ENTRY == 2
    for (VertexIndex v : cg) USE(v);
#elif ENTRY == 3
    for (auto e : cg.edges()) USE(e.first + e.second);
#elif ENTRY == 4
    { G copy(cg); USE(copy.getEdgeNumber()); }
#elif ENTRY == 5
    { G other(cg); USE(cg == other); }
#elif ENTRY == 6
    USE(cg.getAdjacencyMatrix()[a][b]);
#elif ENTRY == 7 && (KIND == 0 || KIND == 1)
    USE(cg.getEdgeLabel(a, b, false)); USE(cg.hasEdge(a, b, 1));
#elif ENTRY == 8 && KIND == 0
    { auto r = cg.getReversedGraph(); USE(r.getEdgeNumber()); }
#elif ENTRY == 8 && KIND == 1
    { auto d = cg.getDirectedGraph(); USE(d.getEdgeNumber()); }
#elif ENTRY == 9 && (KIND == 0 || KIND == 2 || KIND == 4)
    USE(cg.getInDegree(a)); USE(cg.getOutDegree(a)); USE(cg.getInDegrees()[b]); USE(cg.getOutDegrees()[b]);
#elif ENTRY == 9
    USE(cg.getDegree(a, f)); USE(cg.getDegrees(f)[b]);
#elif ENTRY == 10 && (KIND == 0 || KIND == 1)
    { auto s = algorithms::getSubgraph(cg, S); USE(s.getEdgeNumber()); }
#elif ENTRY == 11 && (KIND == 0 || KIND == 1)
    { auto s = algorithms::getSubgraphWithRemap(cg, S); USE(s.first.getEdgeNumber()); }
#elif ENTRY == 12 && (KIND == 0 || KIND == 1)
    { auto r = algorithms::findVertexPredecessors(cg, a); USE(r.first[b]); }
#elif ENTRY == 13 && (KIND == 0 || KIND == 1)
    { auto r = algorithms::findAllVertexPredecessors(cg, a); USE(r.first[b]); }
#elif ENTRY == 14 && (KIND == 0 || KIND == 1)
    { auto p = algorithms::findGeodesics(cg, a, b); USE(p.size()); }
#elif ENTRY == 15 && (KIND == 0 || KIND == 1)
    { auto p = algorithms::findAllGeodesics(cg, a, b); USE(p.size()); }
#elif ENTRY == 16 && (KIND == 0 || KIND == 1)
    io::writeBinaryEdgeList(cg, FILE_NAME);
#elif ENTRY == 17 && (KIND == 0 || KIND == 1)
    io::writeTextEdgeList<GT, L>(cg, FILE_NAME, [](const int &l) { return std::to_string(l); });
#elif ENTRY == 18 && KIND == 0
    { LabeledUndirectedGraph<int> u(cg); USE(u.getEdgeNumber()); }
#elif ENTRY == 19
    std::cout << cg;
#elif ENTRY == 20 && (KIND == 2 || KIND == 3)
    USE(cg.getEdgeMultiplicity(a, b)); USE(cg.getTotalEdgeNumber()); USE(cg.asLabeledGraph().getEdgeNumber());
#elif ENTRY == 20 && KIND >= 4
    USE(cg.getEdgeWeight(a, b, false)); USE(cg.getTotalWeight() > 0); USE(cg.getWeightMatrix()[a][b] > 0); USE(cg.asLabeledGraph().getEdgeNumber());
#elif ENTRY == 21 && KIND >= 4
    { auto r = algorithms::findGeodesicsDijkstra(cg, a); USE(r.second[b]); }
#elif ENTRY == 99
    g.removeEdge(a, b);          // control: a mutator after the freeze must be flagged by the monitor
#endif
#ifndef VERIF_MODEL
        } catch (...) {}
    };
    std::thread t1(work, "/tmp/vf_mon_a.out"), t2(work, "/tmp/vf_mon_b.out"); t1.join(); t2.join();
#endif
    REACH("end of harness");
}
