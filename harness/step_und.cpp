// One inductive step of LabeledUndirectedGraph<L> from an arbitrary valid (symmetric) state (DESIGN.md §4.1).
// Serves C02 (unordered pairs, symmetric throughout), C03 (label lifetime, undirected), C16 (forced duplicates, DUP>1).
#include "vh.h"
#include "BaseGraph/undirected_graph.hpp"
#include <stdexcept>
using namespace BaseGraph;

#ifndef LT
#define LT 1
#endif
#if LT == 0
typedef NoLabel L;
#define LABELLED 0
#elif LT == 1
typedef int L;
#elif LT == 2
typedef unsigned char L;
#elif LT == 3
typedef double L;
#elif LT == 4
typedef std::string L;
#elif LT == 5
typedef UserLabel L;
#endif
#ifndef LABELLED
#define LABELLED 1
#endif
typedef LabeledUndirectedGraph<L> G;

#define OP_ADD 0
#define OP_ADD_DEFAULT 1
#define OP_REMOVE 3
#define OP_RMLOOPS 4
#define OP_RMVERTEX 5
#define OP_CLEAR 6
#define OP_RESIZE 7
#define OP_SETLABEL 8
#define OP_CTOR 9
#define OP_READD 10
#define OP_FORCE_ADD 12
#define OP_DEDUP 13
#define OP_NONE 14
#ifndef OP
#define OP OP_ADD
#endif
#ifndef OBS
#define OBS 0
#endif
#ifndef RM
#define RM 0
#endif

#if LABELLED
static L pick() { return LabDom<L>::pick(); }
#else
static L pick() { return L(); }
#endif
#define LO(a, b) ((a) < (b) ? (a) : (b))
#define HI(a, b) ((a) < (b) ? (b) : (a))
#define SAME_STATE(g, before) ((g).adjacencyList == (before).adjacencyList && (g).edgeNumber == (before).edgeNumber && (g).edgeLabels == (before).edgeLabels && (g).size == (before).size)

extern "C" void harness() {
    const unsigned n = N;
    unsigned n2 = n;
    unsigned C[NM][NM]; L lab[NM][NM];   // C symmetric; lab[min][max]
    size_t cnt = 0;                      // copies over unordered pairs
    G g(n);
#if OP == OP_CTOR
    for (unsigned i = 0; i < NM; ++i) for (unsigned j = 0; j < NM; ++j) C[i][j] = 0;
#else
    cnt = vh_build_undirected(g, n, C);
    g.edgeNumber = cnt;
#if LABELLED
    for (unsigned i = 0; i < NM; ++i) for (unsigned j = i; j < NM; ++j) if (i < n && j < n && C[i][j]) { lab[i][j] = pick(); vh_label_set(g, i, j, lab[i][j]); }
#endif
#endif
    unsigned a = n ? nd(n) : 0, b = n ? nd(n) : 0;     // the pair is named in an arbitrary orientation
    const unsigned lo = LO(a, b), hi = HI(a, b);
    L l = pick();
    (void)l; (void)lo; (void)hi;

#if OP == OP_ADD || OP == OP_ADD_DEFAULT
    {
        ASSUME(n > 0);
        G before = g;
#if OP == OP_ADD
        g.addEdge(a, b, l);
#else
        l = L(); g.addEdge(a, b);
#endif
        if (C[a][b] == 0) { C[a][b] = 1; C[b][a] = 1; lab[lo][hi] = l; ++cnt; if (a > b) REACH("addEdge created an edge named in descending order"); if (a == b) REACH("addEdge created a self-loop"); }
        else { REACH("addEdge on an existing edge"); CHECK(SAME_STATE(g, before), "re-adding an existing edge changes nothing"); }
    }
#elif OP == OP_REMOVE
    {
        ASSUME(n > 0);
        G before = g;
        g.removeEdge(a, b);
        if (C[a][b]) { cnt -= C[a][b]; C[a][b] = 0; C[b][a] = 0; if (a > b) REACH("removeEdge removed an edge named in descending order"); if (a == b) REACH("removeEdge removed a self-loop"); }
        else { REACH("removeEdge on an absent edge"); CHECK(SAME_STATE(g, before), "removing an absent edge changes nothing"); }
    }
#elif OP == OP_RMLOOPS
    g.removeSelfLoops();
    for (unsigned i = 0; i < NM; ++i) if (i < n) { if (C[i][i]) REACH("removeSelfLoops removed a loop"); cnt -= C[i][i]; C[i][i] = 0; }
#elif OP == OP_RMVERTEX
    ASSUME(n > 0);
    g.removeVertexFromEdgeList(a);
    if (C[a][a]) REACH("removed vertex had a self-loop");
    for (unsigned k = 0; k < NM; ++k) if (k < n) { if (k != a && C[a][k]) REACH("removed vertex had a neighbour"); cnt -= C[a][k]; C[a][k] = 0; C[k][a] = 0; }
#elif OP == OP_CLEAR
    g.clearEdges();
    if (cnt > 1) REACH("clearEdges on a graph with several edges");
    for (unsigned i = 0; i < NM; ++i) for (unsigned j = 0; j < NM; ++j) C[i][j] = 0;
    cnt = 0;
#elif OP == OP_RESIZE
    n2 = n + nd(NM - n + 1);
    g.resize(n2);
    if (n2 > n && cnt > 0) REACH("resize grew a graph that has edges");
#elif OP == OP_SETLABEL
    {
        ASSUME(n > 0);
        G before = g;
        bool threw = false;
        try { g.setEdgeLabel(a, b, l); } catch (std::invalid_argument &) { threw = true; }
        if (C[a][b]) { CHECK(!threw, "setEdgeLabel on an existing edge succeeds"); lab[lo][hi] = l; if (a > b) REACH("setEdgeLabel relabelled an edge named in descending order"); }
        else { CHECK(threw, "setEdgeLabel on a missing edge throws std::invalid_argument"); CHECK(SAME_STATE(g, before), "a rejected setEdgeLabel changes nothing"); REACH("setEdgeLabel rejected"); }
    }
#elif OP == OP_CTOR
#elif OP == OP_READD
    {
        ASSUME(n > 0); ASSUME(C[a][b]);
#if RM == 0
        g.removeEdge(b, a); cnt -= C[a][b]; C[a][b] = 0; C[b][a] = 0;
#elif RM == 1
        ASSUME(a == b); g.removeSelfLoops(); for (unsigned i = 0; i < NM; ++i) if (i < n) { cnt -= C[i][i]; C[i][i] = 0; }
#elif RM == 2
        { unsigned v = ndb() ? a : b; g.removeVertexFromEdgeList(v); for (unsigned k = 0; k < NM; ++k) if (k < n) { cnt -= C[v][k]; C[v][k] = 0; C[k][v] = 0; } }
#else
        g.clearEdges(); for (unsigned i = 0; i < NM; ++i) for (unsigned j = 0; j < NM; ++j) C[i][j] = 0; cnt = 0;
#endif
        g.addEdge(a, b, l); C[a][b] = 1; C[b][a] = 1; lab[lo][hi] = l; ++cnt;
        REACH("edge removed and re-created with a new label");
    }
#elif OP == OP_FORCE_ADD
    ASSUME(n > 0); ASSUME(C[a][b] < DUP);
    g.addEdge(a, b, l, true);
    if (C[a][b]) REACH("forced insertion of an existing edge");
    ++C[a][b]; if (a != b) ++C[b][a]; lab[lo][hi] = l; ++cnt;
#elif OP == OP_DEDUP
    g.removeDuplicateEdges();
    for (unsigned i = 0; i < NM; ++i) for (unsigned j = i; j < NM; ++j) if (i < n && j < n && C[i][j] > 1) { if (i == j) REACH("duplicate self-loop removed"); else REACH("duplicate edge removed"); cnt -= C[i][j] - 1; C[i][j] = 1; C[j][i] = 1; }
#endif

    // ------------------------------------------------------------------ observers on the post-state
    CHECK(g.getSize() == n2, "getSize is the vertex count");
    CHECK(g.adjacencyList.size() == n2, "one neighbour list per vertex");
    unsigned i = n2 ? nd(n2) : 0, j = n2 ? nd(n2) : 0;
    const unsigned ilo = LO(i, j), ihi = HI(i, j);
    (void)ilo; (void)ihi;
#if OBS == 0
    CHECK(g.getEdgeNumber() == cnt, "getEdgeNumber counts each unordered pair once (per copy)");
    if (n2 > 0) {
        CHECK(g.hasEdge(i, j) == (C[i][j] != 0), "hasEdge(i,j) iff the unordered pair was added and not since removed");
        CHECK(g.hasEdge(j, i) == (C[i][j] != 0), "hasEdge is symmetric");
#if LABELLED && !defined(NO_LABEL_CHECKS)
        CHECK(g.edgeLabels.count({i, j}) == ((C[i][j] != 0 && i <= j) ? 1u : 0u), "the label store has an entry exactly for the existing edges, keyed (min,max)");
        size_t pairs = 0; for (unsigned p = 0; p < NM; ++p) for (unsigned q = p; q < NM; ++q) if (C[p][q]) ++pairs;
        CHECK(g.edgeLabels.size() == pairs, "the label store holds nothing but the labels of existing edges");
        L probe = pick();
        if (C[i][j]) {
            REACH("observed pair is an edge");
            if (i > j) REACH("label observed in descending orientation");
            CHECK(g.getEdgeLabel(i, j) == lab[ilo][ihi], "getEdgeLabel returns the label given at creation or last set, in either orientation");
            CHECK(g.getEdgeLabel(i, j, false) == lab[ilo][ihi], "getEdgeLabel(...,false) returns the label of an existing edge");
            CHECK(g.hasEdge(i, j, probe) == (lab[ilo][ihi] == probe), "hasEdge(i,j,l) iff the edge's label equals l");
        } else {
            REACH("observed pair is not an edge");
            bool threw = false;
            try { g.getEdgeLabel(i, j); } catch (std::invalid_argument &) { threw = true; }
            CHECK(threw, "getEdgeLabel of a pair that is not an edge throws std::invalid_argument");
            CHECK(g.getEdgeLabel(i, j, false) == L(), "getEdgeLabel(...,false) of a pair that is not an edge is a default label");
            CHECK(!g.hasEdge(i, j, probe), "hasEdge(i,j,l) is false for a pair that is not an edge");
        }
#endif
    }
#elif OBS == 1
    if (n2 > 0) {
        unsigned occ = 0, len = 0;
        for (VertexIndex x : g.getNeighbours(i)) { ++len; if (x == j) ++occ; }
        size_t row = 0; for (unsigned q = 0; q < NM; ++q) if (q < n2) row += C[i][q];
        CHECK(occ == C[i][j], "j is among i's neighbours once per copy of {i,j} (a self-loop once)");
        CHECK(len == row, "getNeighbours(i) lists nothing but i's neighbours");
        CHECK(g.getOutNeighbours(i).size() == row, "getOutNeighbours is getNeighbours");
        if (row > 1) REACH("observed vertex has several neighbours");
    }
#elif OBS == 2
    if (n2 > 0) {
        size_t row = 0; for (unsigned q = 0; q < NM; ++q) if (q < n2) row += C[i][q];
        bool twice = ndb();
        size_t want = twice ? row + C[i][i] : row;
        CHECK(g.getDegree(i, twice) == want, "getDegree counts a self-loop twice by default and once on request");
        CHECK(g.getDegrees(twice)[i] == want, "getDegrees agrees with getDegree");
        if (C[i][i] && row > C[i][i]) REACH("degree of a vertex with a self-loop and another neighbour");
    } else CHECK(g.getDegrees().size() == 0, "getDegrees of a graph without vertices is empty");
#elif OBS == 4
    if (n2 > 0) {
        bool twice = ndb();
        size_t want = (i == j && twice) ? 2 * C[i][j] : C[i][j];
        CHECK(g.getAdjacencyMatrix(twice)[i][j] == want, "adjacency matrix is symmetric with the self-loop convention on the diagonal");
        if (cnt > 1) REACH("adjacency matrix of a graph with several edges");
    } else CHECK(g.getAdjacencyMatrix().size() == 0, "adjacency matrix of a graph without vertices is empty");
#elif OBS == 5
    {
        size_t total = 0; unsigned hits = 0; bool ordered = true;
        for (auto e : g.edges()) { ++total; if (e.first == ilo && e.second == ihi) ++hits; if (e.first > e.second) ordered = false; }
        CHECK(total == cnt, "edges() yields one item per unordered pair (per copy)");
        CHECK(ordered, "edges() yields each pair as (smaller, larger)");
        if (n2 > 0) CHECK(hits == C[i][j], "edges() yields {i,j} once per copy");
        if (cnt > 1) REACH("edges() enumerated several edges");
    }
#endif
    REACH("end of harness");
}
