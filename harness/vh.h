// Common harness support: nondeterminism, assertions, reach marks, label domains and the writers that put an
// arbitrary *valid* abstract state into a graph object. Each harness is compiled three ways (DESIGN.md §2.5):
//   symbolic     clang -DVERIF_MODEL against the std operational model -> IR -> ll2c -> CBMC
//   model-native g++ -DVERIF_MODEL against the same model, nondet values from argv
//   real-native  g++ against the real libstdc++ (ASan/UBSan, _GLIBCXX_DEBUG), nondet values from argv
// The only code that differs is marked #ifdef VERIF_MODEL: the model build writes the canonical container
// representation directly, the real build reaches the same abstract state through push_back/operator[].
#pragma once
#include <cstddef>
extern "C" {
unsigned __VERIFIER_nondet_uint(void);
void __VERIFIER_assume(int);
void __VERIFIER_assert(int, const char *);
void __VERIFIER_reach(const char *);
void __VERIFIER_freeze(const void *);
}
#define CHECK(c, msg) __VERIFIER_assert((c) ? 1 : 0, msg)
#define ASSUME(c) __VERIFIER_assume((c) ? 1 : 0)
#define REACH(msg) __VERIFIER_reach(msg)

#ifndef N
#define N 3
#endif
#ifndef NM
#define NM N
#endif
#ifndef DUP
#define DUP 1 /* how many copies of one pair a neighbour list may hold (1 = duplicate free) */
#endif
#ifndef VH_LC
#define VH_LC (DUP * NM) /* longest neighbour list a pre-state may contain */
#endif

#include <iostream>
#include <list>
#include <string>
#include <vector>
#ifdef VERIF_MODEL
namespace std { verif_file verif_the_file; ostream cout, cerr; }
#endif

static inline unsigned ndu() { return __VERIFIER_nondet_uint(); }
static inline unsigned nd(unsigned bound) { unsigned x = __VERIFIER_nondet_uint(); __VERIFIER_assume(x < bound); return x; }
static inline bool ndb() { return nd(2) != 0; }

// ---------------------------------------------------------------- label domains
struct UserLabel {
    int a; char b;
    UserLabel() : a(0), b(0) {}
    UserLabel(int a, char b) : a(a), b(b) {}
    bool operator==(const UserLabel &o) const { return a == o.a && b == o.b; }
};
static const double VH_W[8] = {0.0, 0.5, 1.0, 1.5, 2.0, -1.0, -0.25, 3.0}; // dyadic: every partial sum of < 32 of them is exact
static inline double vh_weight() { return VH_W[nd(8)]; }
template <class L> struct LabDom;
template <> struct LabDom<int> { static int pick() { return (int)ndu(); } };
template <> struct LabDom<unsigned> { static unsigned pick() { return ndu(); } };
template <> struct LabDom<unsigned char> { static unsigned char pick() { return (unsigned char)nd(256); } };
template <> struct LabDom<char> { static char pick() { return (char)nd(256); } };
template <> struct LabDom<double> { static double pick() { return vh_weight(); } };
template <> struct LabDom<UserLabel> { static UserLabel pick() { int a = (int)nd(4) - 1; char b = (char)nd(3); return UserLabel(a, b); } };
template <> struct LabDom<std::string> {
    static std::string pick() { std::string s; unsigned len = nd(3); for (unsigned c = 0; c < 2; ++c) if (c < len) s.push_back(ndb() ? 'a' : 'b'); return s; }
};

// ---------------------------------------------------------------- representation writers
// neighbour list i := vals[0..len)
template <class G> static inline void vh_list_set(G &g, unsigned i, const unsigned *vals, unsigned len) {
#ifdef VERIF_MODEL
    auto &l = g.adjacencyList.d[i];
    l.lo = l.FRONT; l.used = l.FRONT + len; l.n = len;
    for (unsigned c = 0; c < VH_LC; ++c) if (c < len) { l.val[l.FRONT + c] = vals[c]; l.alive[l.FRONT + c] = 1; }
#else
    for (unsigned c = 0; c < len; ++c) g.adjacencyList[i].push_back(vals[c]);
#endif
}
// label store entry (i,j) := v   (the entry must not exist yet)
template <class G, class L> static inline void vh_label_set(G &g, unsigned i, unsigned j, const L &v) {
#ifdef VERIF_MODEL
    g.edgeLabels.p[i][j] = 1; g.edgeLabels.v[i][j] = v; ++g.edgeLabels.n;
#else
    g.edgeLabels[{i, j}] = v;
#endif
}

// Arbitrary directed pre-state on n vertices: every list is an arbitrary sequence over [0,n) in which a value
// occurs at most DUP times; C[i][j] receives the number of copies of (i,j).  Returns the total number of entries.
template <class G> static inline size_t vh_build_directed(G &g, unsigned n, unsigned C[NM][NM], unsigned (*LST)[VH_LC] = 0, unsigned *LEN = 0) {
    size_t cnt = 0;
    for (unsigned i = 0; i < NM; ++i) for (unsigned j = 0; j < NM; ++j) C[i][j] = 0;
    for (unsigned i = 0; i < NM; ++i) if (i < n) {
        unsigned vals[VH_LC]; unsigned len = nd(DUP * n + 1);
        for (unsigned c = 0; c < VH_LC; ++c) if (c < len) { unsigned j = nd(n); ASSUME(C[i][j] < DUP); vals[c] = j; ++C[i][j]; }
        vh_list_set(g, i, vals, len); cnt += len;
        if (LST) { LEN[i] = len; for (unsigned c = 0; c < VH_LC; ++c) if (c < len) LST[i][c] = vals[c]; }
    }
    return cnt;
}
// Arbitrary symmetric pre-state: an arbitrary symmetric copy-count matrix C (entries <= DUP) is chosen first, then each
// list is an arbitrary ordering of its row (a self-loop occupies C[i][i] slots of list i).  Returns #copies over i<=j.
template <class G> static inline size_t vh_build_undirected(G &g, unsigned n, unsigned C[NM][NM], unsigned (*LST)[VH_LC] = 0, unsigned *LEN = 0) {
    size_t cnt = 0;
    for (unsigned i = 0; i < NM; ++i) for (unsigned j = 0; j < NM; ++j) C[i][j] = 0;
    for (unsigned i = 0; i < NM; ++i) for (unsigned j = i; j < NM; ++j) if (i < n && j < n) { unsigned c = nd(DUP + 1); C[i][j] = c; C[j][i] = c; cnt += c; }
    for (unsigned i = 0; i < NM; ++i) if (i < n) {
        unsigned vals[VH_LC]; unsigned len = 0; for (unsigned j = 0; j < NM; ++j) len += C[i][j];
        unsigned seen[NM]; for (unsigned j = 0; j < NM; ++j) seen[j] = 0;
        for (unsigned c = 0; c < VH_LC; ++c) if (c < len) { unsigned j = nd(n); ASSUME(seen[j] < C[i][j]); ++seen[j]; vals[c] = j; }
        vh_list_set(g, i, vals, len);
        if (LST) { LEN[i] = len; for (unsigned c = 0; c < VH_LC; ++c) if (c < len) LST[i][c] = vals[c]; }
    }
    return cnt;
}

// ---------------------------------------------------------------- unordered_set with a chosen iteration order
// The model's unordered_set iterates in insertion order, and harnesses insert in a symbolic order so that every iteration order
// is covered. A counterexample may depend on that order; the real container's order is whatever its hash table gives, so the
// real-native build looks for an insertion order that makes the real container iterate in the wanted order.
#include <unordered_set>
static inline void vh_set_with_order(std::unordered_set<unsigned> &S, const unsigned *seq, unsigned len) {
#ifdef VERIF_MODEL
    for (unsigned c = 0; c < len; ++c) S.insert(seq[c]);
#else
    unsigned perm[8]; for (unsigned c = 0; c < len && c < 8; ++c) perm[c] = c;
    for (int attempt = 0; attempt < 5040; ++attempt) {
        std::unordered_set<unsigned> T; for (unsigned c = 0; c < len; ++c) T.insert(seq[perm[c]]);
        unsigned k = 0; bool same = T.size() == len; for (unsigned x : T) { if (k >= len || x != seq[k]) same = false; ++k; }
        if (same) { S = T; return; }
        // next permutation
        int i = (int)len - 2; while (i >= 0 && perm[i] > perm[i + 1]) --i;
        if (i < 0) break;
        int j = (int)len - 1; while (perm[j] < perm[i]) --j;
        unsigned t = perm[i]; perm[i] = perm[j]; perm[j] = t;
        for (int a = i + 1, b = (int)len - 1; a < b; ++a, --b) { t = perm[a]; perm[a] = perm[b]; perm[b] = t; }
    }
    __VERIFIER_assume(0);   // this iteration order cannot be realised with the real container: the replay does not apply
#endif
}
