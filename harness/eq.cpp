// C06: operator== / operator!= / copies of the eight graph classes on two independent arbitrary valid states.
//   -DKIND=0 LabeledDirectedGraph<L>  1 LabeledUndirectedGraph<L>  2 DirectedMultigraph  3 UndirectedMultigraph
//          4 DirectedWeightedGraph     5 UndirectedWeightedGraph        (-DLT selects L for KIND 0/1)
//   -DNG, -DNH: vertex counts of the two graphs (per-query constants); -DQ: which obligation
#include "vh.h"
#include "BaseGraph/directed_graph.hpp"
#include "BaseGraph/undirected_graph.hpp"
#include "BaseGraph/directed_multigraph.hpp"
#include "BaseGraph/undirected_multigraph.hpp"
#include "BaseGraph/directed_weighted_graph.hpp"
#include "BaseGraph/undirected_weighted_graph.hpp"
using namespace BaseGraph;

#ifndef KIND
#define KIND 0
#endif
#ifndef LT
#define LT 1
#endif
#if LT == 0
typedef NoLabel LL;
#elif LT == 1
typedef int LL;
#elif LT == 3
typedef double LL;
#elif LT == 4
typedef std::string LL;
#elif LT == 5
typedef UserLabel LL;
#endif

#if KIND == 0
typedef LabeledDirectedGraph<LL> G; typedef LL L;
#define UND 0
#elif KIND == 1
typedef LabeledUndirectedGraph<LL> G; typedef LL L;
#define UND 1
#elif KIND == 2
typedef DirectedMultigraph G; typedef unsigned L;
#define UND 0
#elif KIND == 3
typedef UndirectedMultigraph G; typedef unsigned L;
#define UND 1
#elif KIND == 4
typedef DirectedWeightedGraph G; typedef double L;
#define UND 0
#elif KIND == 5
typedef UndirectedWeightedGraph G; typedef double L;
#define UND 1
#endif
#define HASLABEL (KIND >= 2 || LT != 0)

// labels from a 4-value domain per type: equality is all operator== looks at
static L pick4() {
#if KIND == 2 || KIND == 3
    return 1 + nd(4);
#elif KIND == 4 || KIND == 5
    return VH_W[nd(4)];
#elif LT == 0
    return L();
#elif LT == 1
    return (int)nd(4) - 1;
#elif LT == 3
    return VH_W[nd(4)];
#elif LT == 4
    { std::string s; unsigned k = nd(4); if (k & 1) s.push_back('a'); if (k & 2) s.push_back('b'); return s; }
#elif LT == 5
    { unsigned k = nd(4); return UserLabel((int)(k & 1), (char)(k >> 1)); }
#endif
}

struct Abs { unsigned C[NM][NM]; L lab[NM][NM]; };

static void build(G &g, unsigned n, Abs &A) {
#if UND
    size_t cnt = vh_build_undirected(g, n, A.C);
#else
    size_t cnt = vh_build_directed(g, n, A.C);
#endif
    g.edgeNumber = cnt;
#if HASLABEL
#if KIND == 2 || KIND == 3
    size_t total = 0;
#elif KIND >= 4
    long double total = 0;
#endif
    for (unsigned i = 0; i < NM; ++i) for (unsigned j = (UND ? i : 0); j < NM; ++j) if (i < n && j < n && A.C[i][j]) {
        L l = pick4(); A.lab[i][j] = l; if (UND) A.lab[j][i] = l; vh_label_set(g, i, j, l);
#if KIND >= 2
        total += l;
#endif
    }
#if KIND == 2 || KIND == 3
    g.totalEdgeNumber = total;
#elif KIND >= 4
    g.totalWeight = total;
#endif
#endif
}

static bool same_abstraction(unsigned ng, const Abs &A, unsigned nh, const Abs &B) {
    if (ng != nh) return false;
    bool same = true;
    for (unsigned i = 0; i < NM; ++i) for (unsigned j = 0; j < NM; ++j) if (i < ng && j < ng) {
        if (A.C[i][j] != B.C[i][j]) same = false;
#if HASLABEL
        else if (A.C[i][j] && !(A.lab[i][j] == B.lab[i][j])) same = false;
#endif
    }
    return same;
}

#ifndef NG
#define NG N
#endif
#ifndef NH
#define NH N
#endif
#ifndef Q
#define Q 0
#endif

extern "C" void harness() {
    G g(NG); Abs A; build(g, NG, A);
#if Q <= 2
    G h(NH); Abs B; build(h, NH, B);
    const bool want = same_abstraction(NG, A, NH, B);
    if (want) REACH("the two graphs denote the same graph"); else REACH("the two graphs differ");
#endif
#if Q == 0
    CHECK((g == h) == want, "g == h iff same vertex count, same edges and equal labels on every edge");
#elif Q == 1
    CHECK((g != h) == !want, "operator!= is the negation of operator==");
#elif Q == 2
    CHECK((h == g) == want, "operator== is symmetric (the reverse comparison gives the same verdict)");
#elif Q == 3
    CHECK(g == g, "operator== is reflexive");
#elif Q == 4
    { G c = g; CHECK(c == g, "a copy-constructed graph equals its source"); }
#elif Q == 5
    { G c(0); c = g; CHECK(!(c != g), "a copy-assigned graph equals its source"); }
#elif Q == 8 || Q == 9
    // two histories of the same graph: a no-op removal (Q=8) / an insertion undone by a removal (Q=9) must not change the verdict
    if (NG > 0) {
        G before = g;
        unsigned a = nd(NG), b = nd(NG);
#if Q == 8
        ASSUME(!A.C[a][b]);
#if KIND == 2 || KIND == 3
        if (ndb()) g.removeEdge(a, b); else g.removeMultiedge(a, b, nd(4));
#else
        g.removeEdge(a, b);
#endif
        REACH("an absent edge was 'removed'");
#else
        ASSUME(!A.C[a][b]);
#if KIND == 2 || KIND == 3
        { unsigned k = 1 + nd(3); g.addMultiedge(a, b, k); if (ndb()) g.removeMultiedge(a, b, k); else g.setEdgeMultiplicity(a, b, 0); }
#elif KIND >= 4
        g.addEdge(a, b, pick4()); g.removeEdge(a, b);
#elif LT != 0
        g.addEdge(a, b, pick4()); if (UND && ndb()) g.removeEdge(b, a); else g.removeEdge(a, b);
#else
        g.addEdge(a, b); g.removeEdge(a, b);
#endif
        REACH("an edge was added and removed again");
#endif
        CHECK(g == before, "two histories that denote the same graph compare equal");
    }
#elif Q == 10
    // weighted classes: an edge of weight 2^200 added and removed again, or a weight set to 2^200 and back, leaves the same graph; the
    // running total has meanwhile been rounded (2^200 + small is not representable), and the verdict must not depend on that history
#if KIND >= 4
    if (NG > 0) {
        G before = g;
        unsigned a = nd(NG), b = nd(NG);
        const double BIG = 1606938044258990275541962092341162602522202993782792835301376.0;   // 2^200: absorbs any small total both in x87 extended (64-bit mantissa) and in CBMC's long double (binary128)
        if (A.C[a][b]) { double w = A.lab[a][b]; g.setEdgeWeight(a, b, BIG); g.setEdgeWeight(a, b, w); REACH("a weight was set to 2^200 and restored"); }
        else { g.addEdge(a, b, BIG); g.removeEdge(a, b); REACH("an edge of weight 2^200 was added and removed again"); }
        CHECK(g == before, "two histories that denote the same weighted graph compare equal, whatever rounding the running total went through");
        CHECK(!(g != before), "!= is the negation of ==");
    }
#endif
#elif Q == 6 || Q == 7
    // a copy is unaffected by later changes to its source (observed through the copy's own observers)
#if Q == 6
    G c = g;
#else
    G c(1); c = g;
#endif
    if (NG > 0) {
        unsigned a = nd(NG);
        g.removeVertexFromEdgeList(a);
        bool had = false; for (unsigned q = 0; q < NM; ++q) if (q < NG && (A.C[a][q] || A.C[q][a])) had = true;
        if (had) REACH("the source lost edges after the copy was taken");
        unsigned i = nd(NG), j = nd(NG);
        CHECK(c.hasEdge(i, j) == (A.C[i][j] != 0), "the copy still has exactly the edges its source had when copied");
        size_t cnt = 0; for (unsigned p = 0; p < NM; ++p) for (unsigned q = (UND ? p : 0); q < NM; ++q) if (p < NG && q < NG) cnt += A.C[p][q];
        CHECK(c.getEdgeNumber() == cnt && c.getSize() == NG, "the copy keeps its edge and vertex counts");
#if HASLABEL
        if (A.C[i][j]) CHECK(c.edgeLabels.at(UND && i > j ? Edge{j, i} : Edge{i, j}) == A.lab[i][j], "the copy keeps the labels its source had when copied");
#endif
    }
#endif
    REACH("end of harness");
}
