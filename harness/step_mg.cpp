// One inductive step of DirectedMultigraph (-DUND=0) / UndirectedMultigraph (-DUND=1) from an arbitrary valid state.
// Serves C04 (multiplicities, edge count and total agree) and C16 (forced duplicates on multigraphs, DUP>1).
//   -DWIDE=0: every pair may be present, multiplicities and arguments in 0..MMAX (dense family)
//   -DWIDE=1: at most two pairs present, multiplicities and arguments arbitrary 32-bit values whose sums do not overflow
#include "vh.h"
#if UND
#include "BaseGraph/undirected_multigraph.hpp"
#else
#include "BaseGraph/directed_multigraph.hpp"
#endif
#include <stdexcept>
using namespace BaseGraph;
#if UND
typedef UndirectedMultigraph G;
#else
typedef DirectedMultigraph G;
#endif
#ifndef MMAX
#define MMAX 3
#endif
#ifndef WIDE
#define WIDE 0
#endif

#define OP_ADD1 0          /* addEdge(a,b) */
#define OP_ADDK 1          /* addMultiedge(a,b,k) */
#define OP_ADDREC 2        /* directed: addReciprocalMultiedge(a,b,k) */
#define OP_REMOVE1 3       /* removeEdge(a,b) */
#define OP_REMOVEK 4       /* removeMultiedge(a,b,k) */
#define OP_SET 5           /* setEdgeMultiplicity(a,b,k) */
#define OP_RMLOOPS 6
#define OP_RMVERTEX 7
#define OP_CLEAR 8
#define OP_CTOR 9
#define OP_RESIZE 10
#define OP_ADDREC1 11      /* directed: addReciprocalEdge(a,b) */
#define OP_FORCE_ADD 12    /* DUP>1: addMultiedge(a,b,k,true) with k equal to the multiplicity the pair already carries */
#define OP_DEDUP 13        /* DUP>1 */
#define OP_NONE 14
#ifndef OP
#define OP OP_ADDK
#endif
#ifndef OBS
#define OBS 0
#endif

static unsigned pick_mult() {
#if WIDE
    unsigned m = ndu(); ASSUME(m >= 1 && m <= 0x3fffffffu); return m;
#else
    return 1 + nd(MMAX);
#endif
}
static unsigned pick_arg() {
#if WIDE
    unsigned k = ndu(); ASSUME(k <= 0x3fffffffu); return k;
#else
    return nd(MMAX + 1);
#endif
}
#define LO(a, b) ((a) < (b) ? (a) : (b))
#define HI(a, b) ((a) < (b) ? (b) : (a))

extern "C" void harness() {
    const unsigned n = N;
    unsigned n2 = n;
    unsigned C[NM][NM];          // copies of the list entry (0/1 unless DUP>1); symmetric when UND
    unsigned M[NM][NM];          // multiplicity carried by the pair (0 = absent); symmetric when UND
    for (unsigned i = 0; i < NM; ++i) for (unsigned j = 0; j < NM; ++j) M[i][j] = 0;
    size_t cnt = 0;              // getEdgeNumber: list entries (UND: over i<=j)
    size_t total = 0;            // getTotalEdgeNumber
    G g(n);
#if OP == OP_CTOR
    for (unsigned i = 0; i < NM; ++i) for (unsigned j = 0; j < NM; ++j) C[i][j] = 0;
#else
#if UND
    cnt = vh_build_undirected(g, n, C);
#else
    cnt = vh_build_directed(g, n, C);
#endif
#if WIDE
    ASSUME(cnt <= 2);
#endif
    g.edgeNumber = cnt;
    for (unsigned i = 0; i < NM; ++i) for (unsigned j = (UND ? i : 0); j < NM; ++j) if (i < n && j < n && C[i][j]) {
        unsigned m = pick_mult(); M[i][j] = m; if (UND) M[j][i] = m; vh_label_set(g, i, j, m); total += (size_t)m * C[i][j];
    }
    g.totalEdgeNumber = total;
#endif
    unsigned a = n ? nd(n) : 0, b = n ? nd(n) : 0;
    unsigned k = pick_arg();
    (void)a; (void)b; (void)k;

    // ------------------------------------------------------------------ the step and its specification
#if OP == OP_ADD1 || OP == OP_ADDK
    ASSUME(n > 0);
#if OP == OP_ADD1
    k = 1; g.addEdge(a, b);
#else
    g.addMultiedge(a, b, k);
#endif
    if (k) { if (!M[a][b]) { C[a][b] = 1; if (UND) C[b][a] = 1; ++cnt; REACH("a new multiedge was created"); } else REACH("an existing multiedge was incremented");
        M[a][b] += k; if (UND && a != b) M[b][a] += k; total += k; }
    else REACH("adding multiplicity 0 is a no-op");
#elif OP == OP_ADDREC || OP == OP_ADDREC1
    ASSUME(n > 0);
#if OP == OP_ADDREC1
    k = 1; g.addReciprocalEdge(a, b);
#else
    g.addReciprocalMultiedge(a, b, k);
#endif
    if (k) { if (!M[a][b]) { C[a][b] = 1; ++cnt; } M[a][b] += k; total += k;
             if (!M[b][a]) { C[b][a] = 1; ++cnt; } M[b][a] += k; total += k; if (a == b) REACH("reciprocal multiedge on a self-loop adds twice"); }
#elif OP == OP_REMOVE1 || OP == OP_REMOVEK
    ASSUME(n > 0);
#if OP == OP_REMOVE1
    k = 1; g.removeEdge(a, b);
#else
    g.removeMultiedge(a, b, k);
#endif
    if (M[a][b]) {
        if (M[a][b] > k) { M[a][b] -= k; if (UND && a != b) M[b][a] -= k; total -= k; REACH("multiplicity lowered"); }
        else { total -= M[a][b]; M[a][b] = 0; M[b][a] = UND ? 0 : M[b][a]; C[a][b] = 0; if (UND) C[b][a] = 0; --cnt; REACH("multiedge removed altogether"); }
    } else REACH("removing from an absent pair is a no-op");
#elif OP == OP_SET
    ASSUME(n > 0);
    g.setEdgeMultiplicity(a, b, k);
    if (M[a][b] && !k) { REACH("setEdgeMultiplicity(0) on an existing edge"); if (M[a][b] > 1) REACH("setEdgeMultiplicity(0) on an edge of multiplicity above 1"); }
    if (M[a][b] && k) REACH("setEdgeMultiplicity overwrote an existing multiplicity");
    if (!M[a][b] && k) REACH("setEdgeMultiplicity created an edge");
    total -= M[a][b]; total += k;
    if (M[a][b] && !k) { --cnt; C[a][b] = 0; if (UND) C[b][a] = 0; }
    if (!M[a][b] && k) { ++cnt; C[a][b] = 1; if (UND) C[b][a] = 1; }
    M[a][b] = k; if (UND) M[b][a] = k;
#elif OP == OP_RMLOOPS
    g.removeSelfLoops();
    for (unsigned i = 0; i < NM; ++i) if (i < n && M[i][i]) { REACH("removeSelfLoops removed a loop"); total -= (size_t)M[i][i] * C[i][i]; cnt -= C[i][i]; M[i][i] = 0; C[i][i] = 0; }
#elif OP == OP_RMVERTEX
    ASSUME(n > 0);
    g.removeVertexFromEdgeList(a);
    for (unsigned q = 0; q < NM; ++q) if (q < n) {
        if (M[a][q]) { REACH("removed vertex had an out-edge / neighbour"); total -= (size_t)M[a][q] * C[a][q]; cnt -= C[a][q]; M[a][q] = 0; C[a][q] = 0; if (UND) { M[q][a] = 0; C[q][a] = 0; } }
        if (!UND && q != a && M[q][a]) { REACH("removed vertex had an in-edge"); total -= (size_t)M[q][a] * C[q][a]; cnt -= C[q][a]; M[q][a] = 0; C[q][a] = 0; }
    }
#elif OP == OP_CLEAR
    g.clearEdges();
    if (cnt > 1) REACH("clearEdges on a graph with several edges");
    for (unsigned i = 0; i < NM; ++i) for (unsigned j = 0; j < NM; ++j) { C[i][j] = 0; M[i][j] = 0; }
    cnt = 0; total = 0;
#elif OP == OP_RESIZE
    n2 = n + nd(NM - n + 1);
    g.resize(n2);
    if (n2 > n && cnt > 0) REACH("resize grew a graph that has edges");
#elif OP == OP_FORCE_ADD
    ASSUME(n > 0); ASSUME(C[a][b] < DUP); ASSUME(k >= 1); if (M[a][b]) ASSUME(k == M[a][b]);
    g.addMultiedge(a, b, k, true);
    if (C[a][b]) REACH("forced insertion of an existing multiedge");
    ++C[a][b]; if (UND && a != b) ++C[b][a]; M[a][b] = k; if (UND) M[b][a] = k; ++cnt; total += k;
#elif OP == OP_DEDUP
    g.removeDuplicateEdges();
    for (unsigned i = 0; i < NM; ++i) for (unsigned j = (UND ? i : 0); j < NM; ++j) if (i < n && j < n && C[i][j] > 1) {
        REACH("duplicate multiedge removed"); total -= (size_t)M[i][j] * (C[i][j] - 1); cnt -= C[i][j] - 1; C[i][j] = 1; if (UND) C[j][i] = 1; }
#endif

    // ------------------------------------------------------------------ observers on the post-state
    CHECK(g.getSize() == n2, "getSize is the vertex count");
    CHECK(g.adjacencyList.size() == n2, "one neighbour list per vertex");
    unsigned i = n2 ? nd(n2) : 0, j = n2 ? nd(n2) : 0;
#if OBS == 0
    CHECK(g.getEdgeNumber() == cnt, "getEdgeNumber is the number of pairs with non-zero multiplicity");
    CHECK(g.getTotalEdgeNumber() == total, "getTotalEdgeNumber is the sum of all multiplicities");
    if (n2 > 0) {
        CHECK(g.getEdgeMultiplicity(i, j) == M[i][j], "getEdgeMultiplicity is the number of parallel edges the history leaves");
        CHECK(g.hasEdge(i, j) == (M[i][j] != 0), "multiplicity is zero exactly when hasEdge is false");
#if UND
        CHECK(g.getEdgeMultiplicity(j, i) == M[i][j], "getEdgeMultiplicity is symmetric");
        CHECK(g.edgeLabels.count({i, j}) == ((M[i][j] != 0 && i <= j) ? 1u : 0u), "the multiplicity store has an entry exactly for the existing edges, keyed (min,max)");
        size_t pairs = 0; for (unsigned p = 0; p < NM; ++p) for (unsigned q = p; q < NM; ++q) if (M[p][q]) ++pairs;
#else
        CHECK(g.edgeLabels.count({i, j}) == (M[i][j] != 0 ? 1u : 0u), "the multiplicity store has an entry exactly for the existing edges");
        size_t pairs = 0; for (unsigned p = 0; p < NM; ++p) for (unsigned q = 0; q < NM; ++q) if (M[p][q]) ++pairs;
#endif
        CHECK(g.edgeLabels.size() == pairs, "the multiplicity store holds nothing but existing edges");
        if (M[i][j]) REACH("observed pair is an edge"); else REACH("observed pair is not an edge");
    }
#elif OBS == 1
    if (n2 > 0) {
        unsigned occ = 0, len = 0;
        for (VertexIndex x : g.getOutNeighbours(i)) { ++len; if (x == j) ++occ; }
        size_t row = 0; for (unsigned q = 0; q < NM; ++q) if (q < n2) row += C[i][q];
        CHECK(occ == C[i][j], "the neighbour list holds j once per list entry of the pair");
        CHECK(len == row, "the neighbour list holds nothing else");
        if (row > 1) REACH("observed vertex has several neighbours");
    }
#elif OBS == 2
    if (n2 > 0) {
        size_t row = 0; for (unsigned q = 0; q < NM; ++q) if (q < n2) row += (size_t)M[i][q] * C[i][q];
#if UND
        bool twice = ndb();
        size_t want = twice ? row + (size_t)M[i][i] * C[i][i] : row;
        CHECK(g.getDegree(i, twice) == want, "getDegree is the multiplicity-weighted count (self-loop twice by default)");
        if (M[i][i] && row > M[i][i]) REACH("degree of a vertex with a self-loop and another neighbour");
#else
        CHECK(g.getOutDegree(i) == row, "getOutDegree is the multiplicity-weighted count");
        if (row > M[i][j] && M[i][j]) REACH("out-degree over several multiedges");
#endif
    }
#elif OBS == 3
    if (n2 > 0) {
#if UND
        bool twice = ndb();
        size_t row = 0; for (unsigned q = 0; q < NM; ++q) if (q < n2) row += (size_t)M[i][q] * C[i][q];
        CHECK(g.getDegrees(twice)[i] == (twice ? row + (size_t)M[i][i] * C[i][i] : row), "getDegrees agrees with getDegree");
#else
        size_t row = 0; for (unsigned q = 0; q < NM; ++q) if (q < n2) row += (size_t)M[i][q] * C[i][q];
        CHECK(g.getOutDegrees()[i] == row, "getOutDegrees is the multiplicity-weighted count");
#endif
        if (cnt > 1) REACH("degrees of a graph with several multiedges");
    }
#elif OBS == 4
    if (n2 > 0) {
#if UND
        bool twice = ndb();
        size_t want = (size_t)M[i][j] * C[i][j]; if (i == j && twice) want *= 2;
        CHECK(g.getAdjacencyMatrix(twice)[i][j] == want, "adjacency matrix holds the multiplicities (diagonal per the self-loop convention)");
#else
        CHECK(g.getAdjacencyMatrix()[i][j] == (size_t)M[i][j] * C[i][j], "adjacency matrix holds the multiplicities");
#endif
        if (cnt > 1) REACH("adjacency matrix of a graph with several multiedges");
    }
#elif OBS == 6 && !UND
    if (n2 > 0) {
        size_t col = 0; for (unsigned q = 0; q < NM; ++q) if (q < n2) col += (size_t)M[q][j] * C[q][j];
        CHECK(g.getInDegree(j) == col, "getInDegree is the multiplicity-weighted count");
        if (cnt > 1) REACH("in-degree in a graph with several multiedges");
    }
#elif OBS == 7 && !UND
    if (n2 > 0) {
        size_t col = 0; for (unsigned q = 0; q < NM; ++q) if (q < n2) col += (size_t)M[q][j] * C[q][j];
        CHECK(g.getInDegrees()[j] == col, "getInDegrees is the multiplicity-weighted count");
        if (cnt > 1) REACH("in-degrees of a graph with several multiedges");
    }
#endif
    REACH("end of harness");
}
