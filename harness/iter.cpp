// C08: vertex and edge enumeration.  -DUND=0/1 (LabeledDirectedGraph<int> / LabeledUndirectedGraph<int>), -DQ:
//   Q=0  vertex range yields 0..n-1 in order
//   Q=1  whole traversal driven by hand, pre/post increment chosen per step: every edge exactly once, begin()==end() iff no edge
//   Q=2  two traversals give the same sequence (compared at an arbitrary position)
//   Q=3  begin() is the first valid position (or end())
//   Q=4  one ++ (pre or post) from an ARBITRARY valid position reaches the next valid position in (vertex, list order), or end()
//   Q=5  traversal, then one insertion through the class's own addEdge, then traversal again: the second one yields every edge
//        (enumeration must not depend on anything remembered from an earlier traversal) - for each of the class families -DCLS
// Q=3/4 are the inductive decomposition of the traversal: positions are visited in strictly increasing order, none is skipped,
// and each edge (each unordered pair, each copy) owns exactly one valid position - so they cover graphs Q=1 cannot reach.
#include "vh.h"
#include "BaseGraph/directed_graph.hpp"
#include "BaseGraph/undirected_graph.hpp"
using namespace BaseGraph;
#ifndef UND
#define UND 0
#endif
#include "BaseGraph/directed_multigraph.hpp"
#include "BaseGraph/undirected_multigraph.hpp"
#include "BaseGraph/directed_weighted_graph.hpp"
#include "BaseGraph/undirected_weighted_graph.hpp"
#ifndef CLS
#define CLS 0 /* 0: Labeled(Un)directedGraph<int>  1: multigraph  2: weighted graph (Q=5 only) */
#endif
#if CLS == 1 && UND
typedef UndirectedMultigraph G;
#elif CLS == 1
typedef DirectedMultigraph G;
#elif CLS == 2 && UND
typedef UndirectedWeightedGraph G;
#elif CLS == 2
typedef DirectedWeightedGraph G;
#elif UND
typedef LabeledUndirectedGraph<int> G;
#else
typedef LabeledDirectedGraph<int> G;
#endif
#ifndef Q
#define Q 1
#endif

// list iterator at the k-th entry of vertex v's neighbour list
static Successors::const_iterator list_iter(const G &g, unsigned v, unsigned k) {
#ifdef VERIF_MODEL
    const Successors &l = g.adjacencyList.d[v];
    return Successors::const_iterator(&l, l.FRONT + k);
#else
    auto it = g.adjacencyList[v].begin(); for (unsigned c = 0; c < k; ++c) ++it; return it;
#endif
}

extern "C" void harness() {
    const unsigned n = N;
    G g(n);
    unsigned C[NM][NM]; unsigned LST[NM][VH_LC], LEN[NM];
    for (unsigned i = 0; i < NM; ++i) LEN[i] = 0;
#if UND
    size_t cnt = vh_build_undirected(g, n, C, LST, LEN);
#else
    size_t cnt = vh_build_directed(g, n, C, LST, LEN);
#endif
    g.edgeNumber = cnt;
    // (labels are irrelevant to enumeration; the store is left empty)
#define VALID(v, k) ((k) < LEN[v] && (!UND || (v) <= LST[v][k]))   /* position (v,k) denotes an edge to be yielded */

#if Q == 0
    unsigned expect = 0; bool inorder = true;
    for (VertexIndex v : g) { if (v != expect) inorder = false; ++expect; }
    CHECK(inorder && expect == n, "range-iteration over a graph yields 0..getSize()-1 in order");
    { auto b = g.begin(); auto b2 = b++; CHECK(*b2 == 0 && *b == 1, "post-increment of the vertex iterator returns the old position and advances by one"); }
#elif Q == 1
    unsigned i = n ? nd(n) : 0, j = n ? nd(n) : 0;
    if (UND && i > j) { unsigned t = i; i = j; j = t; }
    auto edges = g.edges();
    auto it = edges.begin(); const auto end = edges.end();
    CHECK((it == end) == (cnt == 0), "begin() == end() exactly when the graph has no edge");
    size_t total = 0; unsigned hits = 0; bool ordered = true;
    for (unsigned step = 0; step < NM * NM * DUP + 1; ++step) if (it != end) {       /* edge_walk */
        Edge e = *it;
        ++total; if (e.first == i && e.second == j) ++hits; if (UND && e.first > e.second) ordered = false;
        if (ndb()) ++it; else { auto old = it++; CHECK(*old == e, "post-increment returns the position it left"); }
    }
    CHECK(!(it != end), "the traversal ends after at most one step per edge");
    CHECK(total == cnt, "edges() yields exactly as many items as there are edges");
    if (n) CHECK(hits == C[i][j], "edges() yields every edge exactly once (one orientation per undirected edge, once per self-loop)");
    CHECK(ordered, "an undirected edge is yielded as (smaller, larger)");
    if (cnt > 2) REACH("traversal of a graph with more than two edges");
    if (n && LEN[0] == 0 && cnt) REACH("first vertex isolated");
    if (n && LEN[n - 1] == 0 && cnt) REACH("last vertex isolated");
#elif Q == 2
    unsigned pos = nd(NM * NM * DUP + 1);
    Edge first_seen(0, 0), second_seen(0, 0); unsigned k1 = 0, k2 = 0;
    for (auto e : g.edges()) { if (k1 == pos) first_seen = e; ++k1; }                 /* edge_walk */
    for (auto e : g.edges()) { if (k2 == pos) second_seen = e; ++k2; }                /* edge_walk */
    CHECK(k1 == k2 && first_seen == second_seen, "repeated traversals give the same sequence");
    if (pos < k1 && pos > 0) REACH("sequences compared at an inner position");
#elif Q == 3
    {
        // first valid position in (vertex, list order)
        bool found = false; unsigned fv = 0, fk = 0;
        for (unsigned v = NM; v-- > 0;) for (unsigned k = VH_LC; k-- > 0;) if (v < n && VALID(v, k)) { found = true; fv = v; fk = k; }
        auto edges = g.edges(); auto b = edges.begin();
        if (!found) { CHECK(b == edges.end(), "begin() is end() when there is nothing to yield"); REACH("begin() of a graph without edges"); }
        else {
            CHECK(b != edges.end(), "begin() is not end() when the graph has an edge");
            CHECK(b.vertex == fv && b.neighbour == list_iter(g, fv, fk), "begin() is the first edge in (vertex, neighbour-list) order");
            Edge e = *b; CHECK(e.first == fv && e.second == LST[fv][fk], "dereferencing yields (vertex, neighbour)");
            if (fv > 0) REACH("begin() skipped leading vertices");
        }
    }
#elif Q == 4
    {
        ASSUME(n > 0);
        unsigned v = nd(n), k = nd(VH_LC); ASSUME(VALID(v, k));        // an arbitrary position the traversal can be at
        bool found = false; unsigned nv = 0, nk = 0;                 // the next valid position after (v,k)
        for (unsigned a = NM; a-- > 0;) for (unsigned b = VH_LC; b-- > 0;) if (a < n && VALID(a, b) && (a > v || (a == v && b > k))) { found = true; nv = a; nk = b; }
        G::Edges::constEdgeIterator it(g, v, list_iter(g, v, k));
        auto edges = g.edges();
        if (ndb()) ++it; else { auto old = it++; CHECK(old.vertex == v && old.neighbour == list_iter(g, v, k), "post-increment returns the position it left"); }
        if (!found) { CHECK(it == edges.end(), "++ from the last edge reaches end()"); REACH("stepped from the last edge to end()"); }
        else {
            CHECK(it != edges.end(), "++ does not reach end() while an edge remains");
            CHECK(it.vertex == nv && it.neighbour == list_iter(g, nv, nk), "++ reaches the next edge in (vertex, neighbour-list) order, skipping nothing and repeating nothing");
            if (nv > v + 1) REACH("++ skipped a vertex without entries to yield");
            if (UND && nv == v && nk > k + 1) REACH("++ skipped a half-edge of the larger endpoint");
        }
    }
#elif Q == 5
    {
        ASSUME(n > 0);
#if CLS == 1
        { size_t total = 0; for (unsigned i = 0; i < NM; ++i) for (unsigned j = (UND ? i : 0); j < NM; ++j) if (i < n && j < n && C[i][j]) { vh_label_set(g, i, j, 1u); total += 1; } g.totalEdgeNumber = total; }
#elif CLS == 2
        { long double total = 0; for (unsigned i = 0; i < NM; ++i) for (unsigned j = (UND ? i : 0); j < NM; ++j) if (i < n && j < n && C[i][j]) { vh_label_set(g, i, j, 1.0); total += 1.0; } g.totalWeight = total; }
#else
        for (unsigned i = 0; i < NM; ++i) for (unsigned j = (UND ? i : 0); j < NM; ++j) if (i < n && j < n && C[i][j]) vh_label_set(g, i, j, 1);
#endif
        size_t first = 0; for (auto e : g.edges()) { (void)e; ++first; }                     /* edge_walk */
        CHECK(first == cnt, "the first traversal yields every edge");
        unsigned a = nd(n), b = nd(n); ASSUME(!C[a][b]);
#if CLS == 2
        g.addEdge(a, b, 1.0);
#else
        g.addEdge(a, b);
#endif
        size_t second = 0; unsigned hits = 0;
        for (auto e : g.edges()) { ++second; if ((e.first == a && e.second == b) || (UND && e.first == b && e.second == a)) ++hits; }   /* edge_walk */
        CHECK(second == cnt + 1, "a traversal after an insertion yields every edge, the new one included");
        CHECK(hits == 1, "the inserted edge is enumerated exactly once");
        if (cnt > 0 && a < n - 1) REACH("insertion at a vertex before existing edges' vertices");
    }
#endif
    REACH("end of harness");
}
