"""Obligations (CBMC queries) per property and tier.  One obligation = one harness source + -D parameters + loop bounds."""

LT_NAMES = {0: "nolabel", 1: "int", 2: "uchar", 3: "double", 4: "string", 5: "struct"}
DIR_OPS = {0: "addEdge", 1: "addEdgeDefault", 2: "addReciprocalEdge", 3: "removeEdge", 4: "removeSelfLoops", 5: "removeVertexFromEdgeList",
           6: "clearEdges", 7: "resize", 8: "setEdgeLabel", 9: "ctor", 10: "readd", 11: "addReciprocalEdgeDefault", 12: "forceAdd", 13: "removeDuplicateEdges", 14: "anystate"}
OBS_NAMES = {0: "core", 1: "neigh", 2: "indeg", 3: "indegs", 4: "matrix", 5: "edges"}


def caps(N, NM, DUP=1, extra_list=1, **more):
    d = {"N": N, "NM": max(NM, 1), "DUP": DUP, "VERIF_VEC_CAP": max(NM, 1), "VERIF_LIST_CAP": DUP * max(NM, 1) + extra_list,
         "VERIF_KEY_MAX": max(NM, 1), "VERIF_SET_CAP": max(NM, 1) + 1, "VERIF_MAP_CAP": max(NM, 1) + 1}
    d.update(more)
    return d


def default_bound(defs):
    return "default=%d" % (max(defs["VERIF_LIST_CAP"], defs["VERIF_VEC_CAP"], defs["VERIF_KEY_MAX"], defs.get("VERIF_SET_CAP", 0), defs.get("VERIF_QUEUE_CAP", 0), defs.get("VERIF_STR_CAP", 0), defs.get("VERIF_FILE_CAP", 0)) + 2)


def graph_bounds(defs):
    """per-loop unwinding bounds for harnesses over the graph classes: edge traversals visit every list entry and skip every vertex"""
    nm, dup = defs["NM"], defs.get("DUP", 1)
    e = nm * nm * dup + nm + 2
    names = ["harness", "getInDegree", "getInDegrees", "getAdjacencyMatrix", "getReversedGraph", "getDirectedGraph", "getOutDegrees", "writeTextEdgeList", "writeBinaryEdgeList", "edge_walk"]
    return ",".join("%s=%d" % (k, e) for k in names) + "," + default_bound(defs)


def step(prop, src, tag, N, NM, LT, OP, OBS, DUP=1, opnames=DIR_OPS, **kw):
    defs = caps(N, NM, DUP)
    defs.update({"LT": LT, "OP": OP, "OBS": OBS})
    defs.update(kw.pop("defs", {}))
    ob = {"id": "%s/%s/%s/n%d%s/%s/%s" % (prop, tag, LT_NAMES[LT], N, ("d%d" % DUP) if DUP > 1 else "", opnames[OP] + ("-rm%d" % defs["RM"] if "RM" in defs else ""), OBS_NAMES[OBS]),
          "src": src, "defs": defs, "bounds": graph_bounds(defs)}
    ob.update(kw)
    return ob


# ------------------------------------------------------------------------------------------------ C01
EMPTY_AFTER = ["several", "observed pair is an edge"]  # reach marks that cannot be hit when the step leaves no edge


def c01(tier):
    """steps: mutator x {core, neigh} pin the post-state's representation (RI + abstraction = spec);
       observers: every remaining observer on an arbitrary valid state (they are functions of the representation)."""
    obs = []
    ops = [0, 1, 2, 11, 3, 4, 5, 6, 7, 9]
    if tier == "quick":
        plan = [(lt, n) for lt in (0, 1) for n in (0, 1, 2, 3)] + [(lt, 3) for lt in (2, 3, 4, 5)]
    else:
        plan = [(lt, n) for lt in (0, 1) for n in (0, 1, 2, 3, 4)] + [(lt, n) for lt in (2, 3, 4, 5) for n in (2, 3)]
    for lt, n in plan:
        for op in ops:
            if n == 0 and op in (0, 1, 2, 11, 3, 5):   # these take a vertex argument: no valid call on zero vertices
                continue
            if tier == "quick" and lt >= 2 and op in (1, 11, 9, 7):
                continue
            nm = n + 1 if op == 7 else n
            for o in (0, 1):
                kw = {"optional_reach": [""]} if n < 3 else {"optional_reach": EMPTY_AFTER} if op in (6, 9) else {}
                obs.append(step("C01", "step_dir.cpp", "dir", n, nm, lt, op, o, **kw))
        for o in (2, 3, 4, 5):
            if tier == "quick" and lt >= 2 and o != 5:
                continue
            kw = {"optional_reach": [""]} if n < 3 else {}
            obs.append(step("C01", "step_dir.cpp", "dir", n, n, lt, 14, o, **kw))
    return obs


PROPS = {
    "C01": {"gen": c01,
            "bounds": {"quick": "graphs of 0..3 vertices (NoLabel, int), 3 vertices (unsigned char, double, std::string capacity 8, user struct); one mutator step from every valid duplicate-free state; resize up to +1 vertex",
                       "thorough": "graphs of 0..4 vertices (NoLabel, int), 2..3 vertices (other label types)"},
            "outside": "graphs with more vertices than the bound; force=true (C16); label types other than the six instantiated",
            "explanation": "Inductive step: arbitrary valid pre-state (representation invariant assumed) -> one real mutator with arbitrary in-range arguments -> every observer must equal its definition on the specified abstract post-state; constructor = base case. All steps UNSAT => every finite history on <=N vertices is covered.",
            "assumptions": ["pre-state satisfies RI_dir: entries < size, duplicate free lists, edgeNumber = sum of list lengths, label store keys = edge set"]},
}


def obligations(prop, tier):
    return PROPS[prop]["gen"](tier)
