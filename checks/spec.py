"""Obligations (CBMC queries) per property and tier.  One obligation = one harness source + -D parameters + loop bounds."""

LT_NAMES = {0: "nolabel", 1: "int", 2: "uchar", 3: "double", 4: "string", 5: "struct"}
DIR_OPS = {0: "addEdge", 1: "addEdgeDefault", 2: "addReciprocalEdge", 3: "removeEdge", 4: "removeSelfLoops", 5: "removeVertexFromEdgeList",
           6: "clearEdges", 7: "resize", 8: "setEdgeLabel", 9: "ctor", 10: "readd", 11: "addReciprocalEdgeDefault", 12: "forceAdd", 13: "removeDuplicateEdges", 14: "anystate"}
OBS_NAMES = {0: "core", 1: "neigh", 2: "indeg", 3: "indegs", 4: "matrix", 5: "edges"}


def caps(N, NM, DUP=1, extra_list=1, **more):
    d = {"N": N, "NM": max(NM, 1), "DUP": DUP, "VERIF_VEC_CAP": max(NM, 1), "VERIF_LIST_CAP": DUP * max(NM, 1) + extra_list,
         "VERIF_KEY_MAX": max(NM, 1), "VERIF_SET_CAP": max(NM, 1) + 1, "VERIF_MAP_CAP": max(NM, 1) + 1}
    d.update(more)
    return d


def default_bound(defs):
    return "default=%d" % (max(defs["VERIF_LIST_CAP"], defs["VERIF_VEC_CAP"], defs["VERIF_KEY_MAX"], defs.get("VERIF_SET_CAP", 0), defs.get("VERIF_QUEUE_CAP", 0), defs.get("VERIF_STR_CAP", 0), defs.get("VERIF_FILE_CAP", 0)) + 2)


def graph_bounds(defs, und=None):
    """per-loop unwinding bounds for harnesses over the graph classes: edge traversals visit every list entry and skip every vertex"""
    nm, dup = defs["NM"], defs.get("DUP", 1)
    if und is None:
        und = defs.get("UND", 0)
    e = (nm * (nm + 1) // 2 * dup + 2) if und else (nm * nm * dup + nm + 2)
    names = ["harness", "getInDegree", "getInDegrees", "getAdjacencyMatrix", "getReversedGraph", "getDirectedGraph", "getOutDegrees", "writeTextEdgeList", "writeBinaryEdgeList", "edge_walk"]
    it = "operator++#0&Undirected=%d,operator++=%d,begin=%d," % (nm * nm * dup + 2, nm + 2, nm + 2)
    return it + ",".join("%s=%d" % (k, max(e, nm * nm * dup + 3) if k == "harness" else e) for k in names) + ",unordered_map=%d," % (defs["VERIF_KEY_MAX"] ** 2 + 2) + default_bound(defs)


def step(prop, src, tag, N, NM, LT, OP, OBS, DUP=1, opnames=DIR_OPS, **kw):
    defs = caps(N, NM, DUP)
    defs.update({"LT": LT, "OP": OP, "OBS": OBS})
    if LT == 4:
        defs["VERIF_STR_CAP"] = 3
    defs.update(kw.pop("defs", {}))
    ob = {"id": "%s/%s/%s/n%d%s/%s/%s" % (prop, tag, LT_NAMES[LT], N, ("d%d" % DUP) if DUP > 1 else "", opnames[OP] + ("-rm%d" % defs["RM"] if "RM" in defs else ""), OBS_NAMES[OBS]),
          "src": src, "defs": defs, "bounds": graph_bounds(defs)}
    ob.update(kw)
    return ob


# ------------------------------------------------------------------------------------------------ C01
EMPTY_AFTER = ["several", "observed pair is an edge", "descending"]  # reach marks that cannot be hit when the step leaves no edge


def c01(tier):
    """steps: mutator x {core, neigh} pin the post-state's representation (RI + abstraction = spec);
       observers: every remaining observer on an arbitrary valid state (they are functions of the representation)."""
    obs = []
    ops = [0, 1, 2, 11, 3, 4, 5, 6, 7, 9]
    if tier == "quick":
        plan = [(lt, n) for lt in (0, 1) for n in (0, 1, 2, 3)] + [(lt, 3) for lt in (2, 3, 4, 5)]
    else:
        plan = [(lt, n) for lt in (0, 1) for n in (0, 1, 2, 3, 4)] + [(lt, n) for lt in (2, 3, 4, 5) for n in (2, 3)]
    for lt, n in plan:
        for op in ops:
            if n == 0 and op in (0, 1, 2, 11, 3, 5):   # these take a vertex argument: no valid call on zero vertices
                continue
            if tier == "quick" and lt >= 2 and op in (1, 11, 9, 7):
                continue
            nm = n + 1 if op == 7 else n
            for o in (0, 1):
                kw = {"optional_reach": [""]} if n < 3 else {"optional_reach": EMPTY_AFTER} if op in (6, 9) else {}
                obs.append(step("C01", "step_dir.cpp", "dir", n, nm, lt, op, o, defs={"NO_LABEL_CHECKS": None}, **kw))
        for o in (2, 3, 4, 5):
            if tier == "quick" and lt >= 2 and o != 5:
                continue
            kw = {"optional_reach": [""]} if n < 3 else {}
            obs.append(step("C01", "step_dir.cpp", "dir", n, n, lt, 14, o, defs={"NO_LABEL_CHECKS": None}, **kw))
    return obs


UND_OPS = dict(DIR_OPS)
UND_OBS = {0: "core", 1: "neigh", 2: "degree", 4: "matrix", 5: "edges"}


def c02(tier):
    obs = []
    ops = [0, 1, 3, 4, 5, 6, 7, 9]
    if tier == "quick":
        plan = [(lt, n) for lt in (0, 1) for n in (0, 1, 2, 3)] + [(lt, 3) for lt in (2, 3, 4, 5)]
    else:
        plan = [(lt, n) for lt in (0, 1) for n in (0, 1, 2, 3, 4)] + [(lt, n) for lt in (2, 3, 4, 5) for n in (2, 3)]
    for lt, n in plan:
        for op in ops:
            if n == 0 and op in (0, 1, 3, 5):
                continue
            if tier == "quick" and lt >= 2 and op in (1, 9, 7):
                continue
            nm = n + 1 if op == 7 else n
            for o in (0, 1):
                kw = {"optional_reach": [""]} if n < 3 else {"optional_reach": EMPTY_AFTER} if op in (6, 9) else {}
                obs.append(step("C02", "step_und.cpp", "und", n, nm, lt, op, o, defs={"NO_LABEL_CHECKS": None}, **kw))
        for o in (2, 4, 5):
            if tier == "quick" and lt >= 2 and o != 4:
                continue
            if o == 5 and n >= 3 and (tier == "quick" or lt > 1):
                continue     # whole-graph traversal of the undirected iterator at 3 vertices: thorough tier (the iterator is covered step-wise by C08)
            kw = {"optional_reach": [""]} if n < 3 else {}
            if o == 5 and n >= 3:
                kw.update(timeout=3000, mem_gb=16)
            ob = step("C02", "step_und.cpp", "und", n, n, lt, 14, o, defs={"NO_LABEL_CHECKS": None}, **kw)
            ob["id"] = ob["id"].replace("/" + OBS_NAMES.get(o, "?"), "/" + UND_OBS[o])
            obs.append(ob)
    return obs


def c03(tier):
    """label lifetime: the same step harnesses with the label-store checks on, labelled types only, plus remove-then-re-add"""
    obs = []
    lts = (1, 2, 3, 4, 5)
    ns = (3,) if tier == "quick" else (2, 3, 4)
    for src, tag, ops in (("step_dir.cpp", "dir", [0, 1, 2, 11, 3, 4, 5, 6, 7, 8, 9]), ("step_und.cpp", "und", [0, 1, 3, 4, 5, 6, 7, 8, 9])):
        for lt in lts:
            for n in ns:
                if n == 4 and lt not in (1, 5):
                    continue
                for op in ops:
                    if tier == "quick" and lt not in (1, 4) and op in (1, 11, 2, 7, 9):
                        continue
                    nm = n + 1 if op == 7 else n
                    kw = {"optional_reach": EMPTY_AFTER} if op in (6, 9) else {}
                    if n < 3 and op == 5:
                        kw = {"optional_reach": ["descending"]}   # after a vertex removal on 2 vertices no pair (i>j) can still be an edge
                    obs.append(step("C03", src, tag, n, nm, lt, op, 0, **kw))
                for rm in (0, 1, 2, 3):
                    if tier == "quick" and lt not in (1, 4):
                        continue
                    obs.append(step("C03", src, tag, n, n, lt, 10, 0, defs={"RM": rm}, optional_reach=["observed pair is not an edge"] if n < 2 else []))
    return obs


def c16_simple(tier):
    """forced duplicates on the simple / labelled classes"""
    obs = []
    for src, tag, observers in (("step_dir.cpp", "dir", (0, 1, 4, 5)), ("step_und.cpp", "und", (0, 1, 4, 5))):
        for lt in ((0, 1) if tier == "quick" else (0, 1, 3, 4)):
            for n in ((2,) if tier == "quick" else (2, 3)):
                dup = 2 if (tier == "quick" or n == 3) else 3
                for op in (12, 3, 13):
                    for o in (0, 1):
                        obs.append(step("C16", src, tag, n, n, lt, op, o, DUP=dup))
                for o in observers[2:]:
                    if tag == "und" and o == 5:
                        if tier == "quick" or n == 3:
                            continue          # duplicates are covered step-wise by C08 (begin / ++ with DUP=2; 3 vertices in its thorough tier): the whole-traversal query on 3 vertices with duplicates ran 30+ minutes per label type
                        ob = step("C16", src, tag, n, n, lt, 14, o, DUP=dup, timeout=3400, mem_gb=16)
                    else:
                        ob = step("C16", src, tag, n, n, lt, 14, o, DUP=dup)
                    if tag == "und":
                        ob["id"] = ob["id"].replace("/" + OBS_NAMES.get(o, "?"), "/" + UND_OBS[o])
                    obs.append(ob)
    return obs


PROPS = {
    "C01": {"gen": c01,
            "bounds": {"quick": "graphs of 0..3 vertices (NoLabel, int), 3 vertices (unsigned char, double, std::string capacity 8, user struct); one mutator step from every valid duplicate-free state; resize up to +1 vertex",
                       "thorough": "graphs of 0..4 vertices (NoLabel, int), 2..3 vertices (other label types)"},
            "outside": "graphs with more vertices than the bound; force=true (C16); label types other than the six instantiated",
            "explanation": "Inductive step: arbitrary valid pre-state (representation invariant assumed) -> one real mutator with arbitrary in-range arguments -> every observer must equal its definition on the specified abstract post-state; constructor = base case. All steps UNSAT => every finite history on <=N vertices is covered.",
            "assumptions": ["pre-state satisfies RI_dir: entries < size, duplicate free lists, edgeNumber = sum of list lengths, label store keys = edge set"]},
}


MG_OPS = {0: "addEdge", 1: "addMultiedge", 2: "addReciprocalMultiedge", 3: "removeEdge", 4: "removeMultiedge", 5: "setEdgeMultiplicity", 6: "removeSelfLoops",
          7: "removeVertexFromEdgeList", 8: "clearEdges", 9: "ctor", 10: "resize", 11: "addReciprocalEdge", 12: "forceAddMultiedge", 13: "removeDuplicateEdges", 14: "anystate"}
MG_OBS = {0: "core", 1: "neigh", 2: "degree", 3: "degrees", 4: "matrix", 6: "indeg", 7: "indegs"}


def mg_step(prop, und, n, nm, op, o, wide=0, DUP=1, mmax=3, **kw):
    defs = caps(n, nm, DUP)
    defs.update({"UND": und, "OP": op, "OBS": o, "WIDE": wide, "MMAX": mmax})
    ob = {"id": "%s/%s/n%d%s%s/%s/%s" % (prop, "umg" if und else "dmg", n, ("d%d" % DUP) if DUP > 1 else "", "wide" if wide else "", MG_OPS[op], MG_OBS[o]),
          "src": "step_mg.cpp", "defs": defs, "bounds": graph_bounds(defs)}
    ob.update(kw)
    return ob


def c04(tier):
    obs = []
    for und in (0, 1):
        ops = [0, 1, 3, 4, 5, 6, 7, 8, 9, 10] + ([2, 11] if not und else [])
        ns = (1, 2, 3) if tier == "quick" else (0, 1, 2, 3, 4)
        for n in ns:
            for op in ops:
                if n == 0 and op not in (6, 8, 9, 10):
                    continue
                nm = n + 1 if op == 10 else n
                for o in (0, 1):
                    kw = {"optional_reach": [""]} if n < 3 else {"optional_reach": EMPTY_AFTER} if op in (8, 9) else {}
                    obs.append(mg_step("C04", und, n, nm, op, o, mmax=3 if tier == "quick" or n == 4 else 7, **kw))
            observers = (2, 3, 4) if und else (2, 3, 4, 6, 7)
            for o in observers:
                if n == 0:
                    continue
                obs.append(mg_step("C04", und, n, n, 14, o, mmax=3, **({"optional_reach": [""]} if n < 3 else {})))
        # wide family: at most two pairs, full-width values
        for op in (1, 4, 5, 7, 8) + ((2,) if not und else ()):
            obs.append(mg_step("C04", und, 3 if tier == "thorough" else 2, 3 if tier == "thorough" else 2, op, 0, wide=1, optional_reach=[""]))
    return obs


WG_OPS = {0: "addEdge", 1: "setEdgeWeight", 3: "removeEdge", 4: "removeSelfLoops", 5: "removeVertexFromEdgeList", 6: "clearEdges", 7: "resize", 9: "ctor", 12: "forceAdd", 13: "removeDuplicateEdges", 14: "anystate"}
WG_OBS = {0: "core", 1: "neigh", 2: "wmatrix", 4: "matrix", 6: "total"}


def wg_step(prop, und, n, nm, op, o, DUP=1, **kw):
    defs = caps(n, nm, DUP)
    defs.update({"UND": und, "OP": op, "OBS": o})
    defs.update(kw.pop("defs", {}))
    sub = ""
    if "FIXA" in defs:
        sub = "-a%d%s" % (defs["FIXA"], ("b%d" % defs["FIXB"]) if op in (0, 1, 3, 12) else "")
    if "POSW" in defs:
        sub += "-posw%d" % defs["POSW"]
    ob = {"id": "%s/%s/n%d%s/%s/%s%s" % (prop, "uwg" if und else "dwg", n, ("d%d" % DUP) if DUP > 1 else "", WG_OPS[op], WG_OBS[o], sub),
          "src": "step_wg.cpp", "defs": defs, "bounds": graph_bounds(defs) , "cbmc": []}
    ob.update(kw)
    return ob


def wg_total(prop, und, n, op, DUP=1, posw_variants=(1, 4)):
    """total-weight obligations: fixed vertex arguments per sub-query; bulk removals additionally use position-determined weights"""
    obs = []
    if op in (0, 1, 3, 12):
        for a in range(n):
            for b in range(n):
                obs.append(wg_step(prop, und, n, n, op, 6, DUP=DUP, defs={"FIXA": a, "FIXB": b}, optional_reach=[""]))
    elif op in (5,):
        for a in range(n):
            for pw in posw_variants:
                obs.append(wg_step(prop, und, n, n, op, 6, DUP=DUP, defs={"FIXA": a, "FIXB": 0, "POSW": pw}, optional_reach=[""]))
    elif op in (4, 6, 13):
        for pw in posw_variants:
            obs.append(wg_step(prop, und, n, n, op, 6, DUP=DUP, defs={"FIXA": 0, "FIXB": 0, "POSW": pw}, optional_reach=[""]))
    elif op in (7, 9):
        obs.append(wg_step(prop, und, n, n + 1 if op == 7 else n, op, 6, DUP=DUP, optional_reach=[""]))
    return obs


def c05(tier):
    obs = []
    for und in (0, 1):
        ns = (1, 2, 3) if tier == "quick" else (0, 1, 2, 3, 4)
        for n in ns:
            for op in (0, 1, 3, 4, 5, 6, 7, 9):
                if n == 0 and op not in (4, 6, 9, 7):
                    continue
                nm = n + 1 if op == 7 else n
                for o in (0, 1):
                    kw = {"optional_reach": [""]} if n < 3 else {"optional_reach": EMPTY_AFTER + ["descending"]} if op in (6, 9) else {}
                    if n == 4:
                        kw.update(timeout=3000)
                    obs.append(wg_step("C05", und, n, nm, op, o, **kw))
                if n >= 2 and (tier == "thorough" or n == 3 or op in (6, 7, 9)):
                    obs.extend(wg_total("C05", und, n, op))
            for o in (2, 4):
                if n == 0:
                    continue
                obs.append(wg_step("C05", und, n, n, 14, o, **({"optional_reach": [""]} if n < 3 else {})))
    return obs


def c16_wg(tier):
    obs = []
    for und in (0, 1):
        n, dup = 2, 2
        for op in (12, 13):
            for o in (0, 1):
                obs.append(wg_step("C16", und, n, n, op, o, DUP=dup))
            obs.extend(wg_total("C16", und, n, op, DUP=dup))
        obs.append(wg_step("C16", und, n, n, 14, 2, DUP=dup, optional_reach=[""]))
    return obs


def c16_mg(tier):
    obs = []
    for und in (0, 1):
        n, dup = 2, 2
        for op in (12, 13):
            for o in (0, 1):
                obs.append(mg_step("C16", und, n, n, op, o, DUP=dup))
        for o in ((2, 4) if und else (2, 4, 6)):
            obs.append(mg_step("C16", und, n, n, 14, o, DUP=dup, optional_reach=[""]))
    return obs


PROPS["C02"] = {"gen": c02,
    "bounds": {"quick": "undirected graphs of 0..3 vertices (NoLabel, int), 3 vertices (other label types); every symmetric state, every neighbour order, either orientation of each call",
               "thorough": "0..4 vertices (NoLabel, int), 2..3 vertices (other label types)"},
    "outside": "graphs with more vertices than the bound; force=true (C16)",
    "explanation": "Inductive step on the symmetric copy-count matrix: arbitrary symmetric pre-state (each list an arbitrary ordering of its row), one mutator naming its pair in an arbitrary orientation, all observers compared with their definition.",
    "assumptions": ["pre-state satisfies RI_und: symmetric lists, a self-loop listed once, edgeNumber = number of unordered pairs, label keys (min,max) = edge set"]}
PROPS["C03"] = {"gen": c03,
    "bounds": {"quick": "directed and undirected labelled graphs on 3 vertices; labels int (32 bit), unsigned char, double (8 table values), std::string (<=2 chars over {a,b}), user struct",
               "thorough": "2..4 vertices"},
    "outside": "setEdgeLabel(force=true); graphs with more vertices than the bound",
    "explanation": "The step harnesses of C01/C02 with the label-store clauses of the representation invariant asserted on the post-state (keys = edge set) and the label observers (getEdgeLabel throwing / non-throwing, hasEdge(i,j,l)); plus remove-by-each-removal then re-add.",
    "assumptions": ["pre-state: label store has an entry exactly for the existing edges"]}
PROPS["C04"] = {"gen": c04,
    "bounds": {"quick": "DirectedMultigraph and UndirectedMultigraph on 1..3 vertices; dense family: every pair may be present, multiplicities and arguments 0..3; wide family: <=2 pairs present on 2 vertices, multiplicities/arguments up to 2^30",
               "thorough": "0..4 vertices; dense multiplicities 0..7 (0..3 at 4 vertices); wide family on 3 vertices"},
    "outside": "multiplicities between the dense bound and 'wide' on graphs with three or more edges; unsigned overflow of EdgeMultiplicity sums; force=true (C16)",
    "explanation": "Inductive step on the multiplicity matrix; totals are specified incrementally (pre-state total +/- the operation's delta).",
    "assumptions": ["pre-state satisfies RI_multi: duplicate-free lists, multiplicity store keys = edge set, stored multiplicities >= 1, totalEdgeNumber = sum of multiplicities"]}
PROPS["C05"] = {"gen": c05,
    "bounds": {"quick": "DirectedWeightedGraph and UndirectedWeightedGraph on 1..3 vertices; every weight (pre-state and argument) one of 8 dyadic table values {0, .5, 1, 1.5, 2, -1, -.25, 3}",
               "thorough": "0..4 vertices"},
    "outside": "weights outside the table; the rounding-error clause of the property (inexact sums); force=true (C16); addReciprocalEdge. Total-weight obligations: the pre-state total is an arbitrary multiple of 1/4 in [-1000, 261144) for addEdge/setEdgeWeight/removeEdge (vertex arguments fixed per sub-query, all pairs); for removeSelfLoops/removeVertexFromEdgeList/clearEdges/removeDuplicateEdges the weights are determined by position (two assignments) and the pre-state total is one of four constants - every edge set and neighbour order remains symbolic",
    "explanation": "Inductive step; the expected total is pre-state total +/- the operation's delta, exact in long double for the table weights.",
    "assumptions": ["pre-state satisfies RI_weighted: weight store keys = edge set, totalWeight = exact sum of stored weights"]}
PROPS["C16"] = {"gen": lambda tier: c16_simple(tier) + c16_mg(tier) + c16_wg(tier),
    "bounds": {"quick": "2 vertices, up to 2 copies per pair", "thorough": "2 vertices with up to 3 copies, 3 vertices with up to 2 copies"},
    "outside": "more copies / vertices than the bound",
    "explanation": "Step harnesses with duplicate copies allowed in the pre-state (RI_dup): forced insertion, removeEdge (all copies), removeDuplicateEdges; observers count per copy.",
    "assumptions": ["pre-state satisfies RI_dup: every pair at most DUP times per list, undirected half-lists carry equal counts, one label entry per connected pair"]}


KIND_NAMES = {0: "dir", 1: "und", 2: "dmg", 3: "umg", 4: "dwg", 5: "uwg"}
EQ_Q = {0: "eq", 1: "ne", 2: "sym", 3: "refl", 4: "copyctor", 5: "copyassign", 6: "copyctor-indep", 7: "copyassign-indep", 8: "noop-removal", 9: "add-then-remove", 10: "huge-weight-history"}


def eq_ob(kind, lt, ng, nh, q, **kw):
    nm = max(ng, nh, 1)
    defs = caps(max(ng, nh), nm)
    defs.update({"KIND": kind, "LT": lt, "NG": ng, "NH": nh, "Q": q})
    if lt == 4:
        defs["VERIF_STR_CAP"] = 3
    ob = {"id": "C06/%s%s/n%d-%d/%s" % (KIND_NAMES[kind], ("-" + LT_NAMES[lt]) if kind < 2 else "", ng, nh, EQ_Q[q]), "src": "eq.cpp", "defs": defs, "bounds": graph_bounds(defs)}
    ob.update(kw)
    return ob


def c06(tier):
    obs = []
    configs = [(0, 0), (0, 1), (1, 0), (1, 1), (2, 1), (3, 1), (4, 1), (5, 1)]
    if tier == "thorough":
        configs += [(0, 4), (0, 5), (1, 3), (1, 4), (1, 5), (0, 3)]
    for kind, lt in configs:
        for q in (0, 1, 2, 3, 4, 5, 6, 7, 8, 9):
            if tier == "quick" and q in (1, 2, 5, 7) and not (kind in (0, 1) and lt == 1):
                continue
            obs.append(eq_ob(kind, lt, 3, 3, q))
        for ng, nh in ((2, 3), (2, 2), (1, 1), (0, 0), (0, 1), (3, 2)):
            if tier == "quick" and (ng, nh) in ((1, 1), (0, 1), (3, 2)) and not (kind in (0, 1) and lt == 1):
                continue
            obs.append(eq_ob(kind, lt, ng, nh, 0, optional_reach=[""]))
        if kind >= 4:
            obs.append(eq_ob(kind, lt, 2, 2, 10))
            if tier == "thorough":
                obs.append(eq_ob(kind, lt, 3, 3, 10))
        if tier == "thorough" and lt in (0, 1):
            obs.append(eq_ob(kind, lt, 4, 4, 0, timeout=3000, mem_gb=12))
    return obs


PROPS["C06"] = {"gen": c06,
    "bounds": {"quick": "two independent arbitrary valid states of the same class, vertex counts (3,3), (2,3), (2,2), (0,0) [plus (1,1),(0,1),(3,2) for the int-labelled classes]; all eight classes; labels from a 4-value domain per type; every neighbour order",
               "thorough": "also (4,4) for NoLabel/int, and double, std::string, struct labels"},
    "outside": "graphs above the vertex bound; duplicate (forced) edges; labels beyond the 4-value domains (operator== only uses label equality)",
    "explanation": "g == h is compared with equality of the abstractions (vertex count, edge set, labels) of two independently chosen valid representations - different list orders and different histories are different symbolic choices. History independence follows because every reachable state satisfies the representation invariant (C01-C05). One operator call per query.",
    "assumptions": ["both states satisfy the class's representation invariant (no orphan label entries) - established inductively by C01-C05"]}


REJECT = {  # kind -> {E: (name, takes a pair?)}
    0: {0: ("addEdge-label-force", 1), 1: ("addEdge-force", 1), 2: ("hasEdge", 1), 3: ("hasEdge-label", 1), 4: ("getOutNeighbours", 0), 5: ("removeEdge", 1), 6: ("getEdgeLabel", 1), 7: ("setEdgeLabel", 1),
        8: ("removeVertexFromEdgeList", 0), 9: ("assertVertexInRange", 0), 10: ("addReciprocalEdge-label", 1), 11: ("addReciprocalEdge", 1), 12: ("getInDegree", 0), 13: ("getOutDegree", 0),
        20: ("resize-smaller", 0), 21: ("setEdgeLabel-missing", 0), 22: ("getEdgeLabel-missing", 0), 30: ("getSubgraph", 0), 31: ("getSubgraphWithRemap", 0),
        40: ("findVertexPredecessors", 0), 41: ("findAllVertexPredecessors", 0), 42: ("findGeodesics", 1), 43: ("findAllGeodesics", 1), 44: ("findGeodesicsFromVertex", 0), 45: ("findAllGeodesicsFromVertex", 0),
        32: ("getSubgraph-badsecond", 0), 33: ("getSubgraphWithRemap-badsecond", 0),
        46: ("findPathToVertexFromPredecessors", 1), 47: ("findMultiplePathsToVertexFromPredecessors", 1)},
    1: {0: ("addEdge-label-force", 1), 1: ("addEdge-force", 1), 2: ("hasEdge", 1), 3: ("hasEdge-label", 1), 4: ("getOutNeighbours", 0), 5: ("removeEdge", 1), 6: ("getEdgeLabel", 1), 7: ("setEdgeLabel", 1),
        8: ("removeVertexFromEdgeList", 0), 9: ("assertVertexInRange", 0), 10: ("getNeighbours", 0), 11: ("getDegree", 0),
        20: ("resize-smaller", 0), 21: ("setEdgeLabel-missing", 0), 22: ("getEdgeLabel-missing", 0), 30: ("getSubgraph", 0), 31: ("getSubgraphWithRemap", 0),
        40: ("findVertexPredecessors", 0), 41: ("findAllVertexPredecessors", 0), 42: ("findGeodesics", 1), 43: ("findAllGeodesics", 1)},
    2: {0: ("addEdge-force", 1), 1: ("addMultiedge-force", 1), 2: ("removeEdge", 1), 3: ("removeMultiedge", 1), 4: ("hasEdge", 1), 5: ("getEdgeMultiplicity", 1), 6: ("setEdgeMultiplicity", 1), 7: ("removeVertexFromEdgeList", 0),
        8: ("getOutNeighbours", 0), 9: ("getOutDegree", 0), 10: ("getInDegree", 0), 11: ("addReciprocalEdge", 1), 12: ("addReciprocalMultiedge", 1), 20: ("resize-smaller", 0)},
    3: {0: ("addEdge-force", 1), 1: ("addMultiedge-force", 1), 2: ("removeEdge", 1), 3: ("removeMultiedge", 1), 4: ("hasEdge", 1), 5: ("getEdgeMultiplicity", 1), 6: ("setEdgeMultiplicity", 1), 7: ("removeVertexFromEdgeList", 0),
        8: ("getOutNeighbours", 0), 9: ("getDegree", 0), 20: ("resize-smaller", 0)},
    4: {0: ("addEdge-weight-force", 1), 1: ("removeEdge", 1), 2: ("getEdgeWeight", 1), 3: ("setEdgeWeight", 1), 4: ("removeVertexFromEdgeList", 0), 5: ("hasEdge", 1), 6: ("getOutNeighbours", 0), 7: ("getInDegree", 0), 8: ("getOutDegree", 0),
        20: ("resize-smaller", 0), 22: ("getEdgeWeight-missing", 0), 40: ("findGeodesicsDijkstra", 0)},
    5: {0: ("addEdge-weight-force", 1), 1: ("removeEdge", 1), 2: ("getEdgeWeight", 1), 3: ("setEdgeWeight", 1), 4: ("removeVertexFromEdgeList", 0), 5: ("hasEdge", 1), 6: ("getOutNeighbours", 0), 7: ("getDegree", 0),
        20: ("resize-smaller", 0), 22: ("getEdgeWeight-missing", 0), 40: ("findGeodesicsDijkstra", 0)},
}


def search_caps(n, nm=None):
    """capacities for harnesses that run the path searches: queue/stack entries, reserved front zone of std::list for push_front"""
    nm = max(nm or n, 1)
    return {"VERIF_LIST_FRONT": nm + 1, "VERIF_LIST_CAP": 2 * nm + 2, "VERIF_QUEUE_CAP": nm * nm + 2, "VERIF_HEAP_CAP": nm * nm + 2}


def c07(tier):
    obs = []
    ns = (0, 2, 3) if tier == "quick" else (0, 1, 2, 3)   # 4 vertices: the rejected call never looks past its arguments; 1245 queries were not worth it
    for kind, entries in REJECT.items():
        for lt in ((1,) if kind else (0, 1)) if kind < 2 else (1,):
            for e, (name, pair) in entries.items():
                for n in ns:
                    if tier == "quick" and n == 2 and not (kind == 0 and lt == 1) and e not in (32, 33):
                        continue
                    if e >= 20 and e < 30 and n == 0:
                        continue
                    if lt == 0 and e in (21, 22, 3, 6, 7):
                        continue
                    if e in (46, 47, 32, 33) and n == 0:
                        continue
                    if e in (32, 33) and n != 2:
                        continue
                    for pos in ((0, 1) if pair else (0,)):
                        for badv in ((0, 1, 2) if e >= 30 else (None,)):
                            defs = caps(n, n)
                            defs.update({"KIND": kind, "LT": lt, "ENTRY": e, "POS": pos})
                            if e >= 30:
                                if e >= 40:
                                    defs.update(search_caps(n))
                                    defs["VERIF_VEC_CAP"] = max(n, 1) * max(n, 1) + 2 if kind >= 4 else max(n, 1)
                                defs["BADV"] = badv
                                if tier == "quick" and badv == 1 and n != 3:
                                    continue
                            ob = {"id": "C07/%s%s/n%d/%s%s%s" % (KIND_NAMES[kind], "-nolabel" if (kind < 2 and lt == 0) else "", n, name, ("-arg%d" % pos) if pair else "", "" if badv is None else "-bad%d" % badv),
                                  "src": "reject.cpp", "defs": defs, "bounds": graph_bounds(defs), "count_ub": True, "optional_reach": [""] if n < 3 else []}
                            obs.append(ob)
                            if kind < 2 and lt == 1 and n == 3 and (e == 21 or (e in (0, 5, 7, 8) and pos == 0)):
                                # the same call from a state that carries orphan labels (reachable through the documented setEdgeLabel(..., force=true))
                                d2 = dict(defs); d2["ORPHAN"] = None
                                obs.append(dict(ob, id=ob["id"] + "-orphanlabels", defs=d2, optional_reach=[""]))
    return obs


PROPS["C07"] = {"gen": c07, "validate_quick": 8,
    "bounds": {"quick": "all eight classes, every public entry point taking a vertex (incl. getSubgraph(WithRemap) and the path searches), graphs of 0 and 3 vertices (0, 2, 3 for LabeledDirectedGraph<int>); the out-of-range argument is ANY 32-bit value >= n in each argument position (for getSubgraph(WithRemap) and the path searches: the three values size, size+1, UINT_MAX, one sub-query each), the other vertex argument is any 32-bit value, every flag symbolic",
               "thorough": "0..4 vertices"},
    "outside": "graphs above the vertex bound; entry points of fileio (C15)",
    "explanation": "Arbitrary valid state, one call with an out-of-range vertex: the exception class must be std::out_of_range (std::invalid_argument for the three documented cases), the representation must be bit-identical afterwards, and no precondition of the std model / array bound may be violated on the way (an unchecked index is a failed assertion here and an ASan/_GLIBCXX_DEBUG abort on replay).",
    "assumptions": ["pre-state satisfies the class's representation invariant"]}


ITER_Q = {0: "vertices", 1: "traversal", 2: "repeat", 3: "begin", 4: "step", 5: "traverse-insert-traverse"}


def iter_ob(und, n, q, DUP=1, **kw):
    defs = caps(n, n, DUP)
    defs.update({"UND": und, "Q": q})
    ob = {"id": "C08/%s/n%d%s/%s" % ("und" if und else "dir", n, ("d%d" % DUP) if DUP > 1 else "", ITER_Q[q]), "src": "iter.cpp", "defs": defs, "bounds": graph_bounds(defs), "count_ub": True}
    ob.update(kw)
    return ob


def c08(tier):
    obs = []
    for und in (0, 1):
        for n in (0, 1, 2, 3):
            obs.append(iter_ob(und, n, 0))
        for n in ((0, 1, 2, 3) if not und else ((0, 1, 2) if tier == "thorough" else (0, 1))):
            kw = {"optional_reach": [""]} if n < 3 else {}
            if und and n == 2:
                kw.update(mem_gb=12, timeout=3000)
            obs.append(iter_ob(und, n, 1, **kw))
        for n in (((2,) if not und else (1,)) if tier == "quick" else ((2, 3) if not und else (1, 2))):
            obs.append(iter_ob(und, n, 2, optional_reach=[""] if n < 3 else [], **({"mem_gb": 12, "timeout": 3000} if und else {})))
        for n in ((1, 2, 3) if tier == "quick" else (1, 2, 3, 4)):
            for q in (3, 4):
                obs.append(iter_ob(und, n, q, optional_reach=[""] if n < 3 else []))
        for q in (3, 4):
            obs.append(iter_ob(und, 2, q, DUP=2, optional_reach=[""]))
            if tier == "thorough":
                obs.append(iter_ob(und, 3, q, DUP=2))
        # traversal - insertion - traversal on each class family (labelled, multigraph, weighted)
        for cls in (0, 1, 2):
            n = (2 if tier == "quick" else 3) if not und else (1 if tier == "quick" else 2)
            ob = iter_ob(und, n, 5, optional_reach=[""], mem_gb=12, timeout=900 if tier == "quick" else 3400)
            ob["defs"]["CLS"] = cls
            ob["id"] += "-" + ("labelled", "multigraph", "weighted")[cls]
            obs.append(ob)
    return obs


PROPS["C08"] = {"gen": c08,
    "bounds": {"quick": "whole traversals: directed graphs of 0..3 vertices, undirected of 0..1 here and 2 in C02 (every edge set, every neighbour order, pre/post increment chosen per step); begin() and single ++ steps from an arbitrary valid position: 1..3 vertices, and 2 vertices with duplicate copies",
               "thorough": "whole traversals also undirected 2 vertices; steps up to 4 vertices and 3 vertices with duplicates"},
    "outside": "graphs above the bounds; the six derived classes re-export the same two iterator templates and are covered only through them",
    "explanation": "Whole traversals on small graphs, plus the inductive decomposition: begin() is the first valid position, one ++ from any valid position reaches the next valid position (or end()), and every edge owns exactly one valid position.",
    "assumptions": ["states satisfy RI_dir / RI_und (with duplicates where stated)"]}


CONV_Q = {0: "reversed", 1: "reversed-twice", 2: "getDirectedGraph", 3: "undirected-from-directed", 4: "und-dir-und", 10: "ctor-DirectedGraph", 11: "ctor-UndirectedGraph", 12: "ctor-LabeledDirected", 13: "ctor-LabeledUndirected",
          14: "ctor-DirectedMultigraph", 15: "ctor-UndirectedMultigraph", 16: "ctor-DirectedWeighted", 17: "ctor-UndirectedWeighted"}


def conv_ob(q, n, k=3, cont=0, **kw):
    defs = caps(n, n)
    defs.update({"Q": q})
    if q >= 10:
        defs.update({"SEQK": k, "CONT": cont, "VERIF_VEC_CAP": max(n, k), "VERIF_LIST_CAP": max(n + 1, k)})
    ob = {"id": "C09/%s/n%d%s" % (CONV_Q[q], n, ("-k%d-%s" % (k, "vector" if cont else "list")) if q >= 10 else ""), "src": "conv.cpp", "defs": defs, "bounds": graph_bounds(defs, und=(q in (2, 4)))}
    if q in (16, 17):
        ob["compile_failure_is_violation"] = True
    ob.update(kw)
    return ob


def c09(tier):
    obs = []
    for q in (0, 2, 3):
        for n in ((0, 2, 3) if tier == "quick" else (0, 1, 2, 3, 4)):
            if q == 2 and n >= 3 and tier == "quick":
                continue      # undirected whole-graph traversal at 3 vertices: thorough tier
            if q == 2 and n >= 4:
                continue
            kw = {"optional_reach": [""]} if n < 3 else {}
            if n >= 3:
                kw.update(timeout=3000 if tier == "thorough" else 900, mem_gb=12)
            obs.append(conv_ob(q, n, **kw))
    for q in (1, 4):
        for n in (((0, 2) if q == 1 else (0, 1)) if tier == "quick" else ((0, 1, 2, 3) if q == 1 else (0, 1, 2))):
            obs.append(conv_ob(q, n, optional_reach=[""] if n < 2 else [], timeout=3000 if tier == "thorough" else 900, mem_gb=12 if n >= 2 else 4))
    for q in (10, 11, 12, 13, 14, 15, 16, 17):
        for cont in (0, 1):
            if tier == "quick":
                obs.append(conv_ob(q, 3, 3, cont))
            else:
                obs.append(conv_ob(q, 3, 4, cont))
                obs.append(conv_ob(q, 4, 3, cont))
    return obs


PROPS["C09"] = {"gen": c09,
    "bounds": {"quick": "getReversedGraph / getDirectedGraph / undirected-from-directed on every labelled graph of 0, 2, 3 vertices (labels from 4 values); double reversal and und->dir->und via operator== on 0 and 2 vertices; edge-list constructors of all eight classes from std::list and std::vector of at most 3 (labelled/weighted/multi-) edges over vertex indices < 3",
               "thorough": "0..4 vertices; identities up to 3 vertices; sequences of 4 edges, indices < 4"},
    "outside": "graphs / sequences above the bounds; containers other than std::list and std::vector; copy construction and assignment are decided under C06",
    "explanation": "Each conversion is run on an arbitrary valid labelled graph and its result compared, at an arbitrary pair, with the definition on the abstraction; constructors are compared with the abstraction obtained by adding the edges one at a time.",
    "assumptions": ["states satisfy RI_dir / RI_und"]}


def c10(tier):
    import itertools
    obs = []
    for und in (0, 1):
        for q in (0, 1):
            for n in ((0, 1, 2, 3) if tier == "quick" else (0, 1, 2, 3, 4)):
                seqs = [None] if n < 2 else [p for k in range(n + 1) for p in itertools.permutations(range(n), k)]
                if n == 4:
                    seqs = [p for p in seqs if len(p) <= 2]            # 4 vertices: subsets of at most two vertices
                if n == 3 and tier == "quick":
                    seqs = [p for p in seqs if len(p) <= 2]            # quick: the full set of 3 vertices is left to the thorough tier
                for sq in seqs:
                    defs = caps(n, n)
                    defs.update({"UND": und, "Q": q})
                    kw = {"optional_reach": [""]}
                    if sq is not None:
                        defs["SEQLEN"] = len(sq)
                        for c in range(4):
                            defs["SEQ%d" % c] = sq[c] if c < len(sq) else 0
                    if n >= 4 or (sq is not None and len(sq) >= 3):
                        kw.update(timeout=3000, mem_gb=12)
                    ob = dict({"id": "C10/%s/%s/n%d%s" % ("und" if und else "dir", "getSubgraphWithRemap" if q else "getSubgraph", n, "" if sq is None else "-S" + "".join(map(str, sq)) if sq else "-Sempty"),
                               "src": "subgraph.cpp", "defs": defs, "bounds": graph_bounds(defs)}, **kw)
                    obs.append(ob)
                    if sq is not None and n == 2 and len(sq) == 1:
                        d2 = dict(defs); d2["PRE_REJECT"] = 1 - sq[0]        # the rejected request named the vertex that is not in S
                        obs.append(dict(ob, id=ob["id"] + "-after-rejected-request", defs=d2))
    return obs


PROPS["C10"] = {"gen": c10,
    "bounds": {"quick": "LabeledDirectedGraph<int> and LabeledUndirectedGraph<int> on 0..3 vertices (labels from 4 values), every subset S (all 2^n, incl. empty and full) in every insertion / iteration order", "thorough": "0..4 vertices"},
    "outside": "graphs above the vertex bound; other label types (the functions treat labels only by copy)",
    "explanation": "Arbitrary valid labelled graph, arbitrary subset in arbitrary iteration order; the result is compared at an arbitrary pair with the induced subgraph; the returned map is checked for key set, range and injectivity.",
    "assumptions": ["states satisfy RI_dir / RI_und"]}


BFS_ALG = {0: "findVertexPredecessors", 1: "findAllVertexPredecessors", 2: "findGeodesics", 3: "findAllGeodesics", 4: "findGeodesicsFromVertex", 5: "findAllGeodesicsFromVertex", 6: "findPathToVertexFromPredecessors"}


def bfs_ob(prop, und, n, alg, fixs=None, fixt=None, **kw):
    nm = max(n, 1)
    defs = caps(n, n)
    pmax = {1: 1, 2: 2, 3: 3, 4: 7}.get(nm, nm * nm)         # most entries the stack of partial paths can hold on n vertices
    qcap = (nm * nm + 2) if prop == "C19" else max(nm + 1, pmax + 1 if alg in (3, 5) else 0)
    front = (nm if alg in (2, 4, 6) else max(nm - 1, 1)) if alg in (2, 3, 4, 5, 6) else 0  # push_front zone: a path has at most n vertices (the all-paths enumeration pushes the last one at the back)
    lcap = front + nm + 1
    defs.update({"UND": und, "ALG": alg, "VERIF_LIST_FRONT": front, "VERIF_LIST_CAP": lcap, "VERIF_QUEUE_CAP": qcap})
    if fixs is not None:
        defs["FIXS"] = fixs
    if fixt is not None:
        defs["FIXT"] = fixt
    b = ("findVertexPredecessors=%d,findAllVertexPredecessors&#0=%d,findAllVertexPredecessors&#1=%d,findMultiplePathsToVertexFromPredecessors=%d,findPathToVertexFromPredecessors=%d,valid_path=%d,default=%d"
         % (nm + 2, qcap + 2, nm + 2, qcap + 2, nm + 2, nm + 3, lcap + 2))
    ob = {"id": "%s/%s/n%d/%s%s%s" % (prop, "und" if und else "dir", n, BFS_ALG[alg], "" if fixs is None else "-s%d" % fixs, "" if fixt is None else "-t%d" % fixt), "src": "bfs.cpp", "defs": defs, "bounds": "unordered_map=%d," % (nm * nm + 2) + b, "count_ub": False}
    ob.update(kw)
    return ob


def c11(tier):
    obs = []
    for und in (0, 1):
        for alg in (0, 1, 2, 3, 4, 5, 6):
            for n in ((1, 2, 3) if tier == "quick" else (1, 2, 3, 4)):
                heavy = alg in (3, 5)
                if n == 4:
                    if alg in (3, 4, 5):
                        continue                      # all-geodesics on 4 vertices: beyond the budget (not claimed)
                    for s in range(4):
                        obs.append(bfs_ob("C11", und, n, alg, fixs=s, timeout=3400, mem_gb=14, optional_reach=[""]))
                elif alg == 5 and n == 2 and tier == "quick":
                    continue                          # findAllGeodesicsFromVertex on 2 vertices: thorough tier
                elif heavy and n == 3:
                    if tier == "quick":
                        continue                      # all-geodesics on 3 vertices: thorough tier, one sub-query per (source, destination)
                    for s in range(n):
                        for t in range(n):
                            obs.append(bfs_ob("C11", und, n, alg, fixs=s, fixt=t, optional_reach=[""], mem_gb=14, timeout=3400))
                elif alg == 1 and n == 3:
                    for s in range(n):
                        obs.append(bfs_ob("C11", und, n, alg, fixs=s, optional_reach=[""], mem_gb=8))
                else:
                    obs.append(bfs_ob("C11", und, n, alg, optional_reach=[""] if n < 3 or alg == 1 else [], mem_gb=8 if heavy else 4))
    return obs


def dij_ob(prop, und, n, emax, fixs=None, **kw):
    nm = max(n, 1)
    defs = caps(n, n)
    defs.update({"UND": und, "EMAX": emax, "VERIF_VEC_CAP": max(nm, emax + 2), "VERIF_HEAP_CAP": emax + 2})
    if fixs is not None:
        defs["FIXS"] = fixs
    b = "verif_=%d,unordered_map=%d,findGeodesicsDijkstra&#0=%d,findGeodesicsDijkstra&#1=%d,default=%d" % (emax + 4, nm * nm + 2, emax + 4, nm + 2, max(nm + 3, emax + 4))
    ob = {"id": "%s/%s/n%d-e%d/findGeodesicsDijkstra%s" % (prop, "uwg" if und else "dwg", n, emax, "" if fixs is None else "-s%d" % fixs), "src": "dijkstra.cpp", "defs": defs, "bounds": b, "no_validate": True, "spec_heap": True, "count_ub": prop == "C12"}
    ob.update(kw)
    return ob


def c12(tier):
    obs = []
    for und in (0, 1):
        if tier == "probe":
            obs.append(dij_ob("C12", und, 4, 4, fixs=0, timeout=2400, mem_gb=16))
            continue
        if tier == "quick":
            obs.append(dij_ob("C12", und, 2, 4 if not und else 3, optional_reach=["intermediate"]))
            for s in range(3):
                obs.append(dij_ob("C12", und, 3, 3 if not und else 4, fixs=s, timeout=900, mem_gb=8))
            if not und:
                o = dij_ob("C12", und, 4, 4, fixs=0, timeout=900, mem_gb=8)
                o["defs"]["FAMILY"] = 1; o["id"] += "-forward-family"
                obs.append(o)
        else:
            obs.append(dij_ob("C12", und, 2, 4, optional_reach=["intermediate"]))
            for s in range(3):
                obs.append(dij_ob("C12", und, 3, 5 if not und else 6, fixs=s, timeout=3400, mem_gb=16))
            for s in range(4):
                obs.append(dij_ob("C12", und, 4, 4, fixs=s, timeout=3400, mem_gb=16))
    return obs


PROPS["C12"] = {"gen": c12,
    "bounds": {"quick": "DirectedWeightedGraph: all graphs on 2 vertices, on 3 vertices with at most 3 edges; UndirectedWeightedGraph: 2 vertices, 3 vertices with at most 4 list entries; weights from {0, .25, .5, 1, 1.5, 2}; every source; every heap arrangement the standard allows; plus the forward family on 4 vertices (every subset of at most 4 of the edges i->j, i<j, source 0), where a queued vertex has its distance lowered (decrease-key). The preconditions of make_heap/push_heap/pop_heap (the range is a heap for the comparator used) count as part of this property: the distances rest on them",
               "thorough": "3 vertices up to 5 (directed) / 6 (undirected) list entries; 4 vertices up to 4 list entries"},
    "outside": "larger graphs; weights outside the table (inexact sums: the rounding clause of the property is not claimed)",
    "explanation": "Certificate oracle: distances form a feasible potential, every reached vertex has a tight predecessor edge, the predecessor chain leads to the source - which characterises minimum distances for non-negative weights; unreachable vertices carry +inf and the sentinel. Termination is the unwinding bound of the main loop.",
    "assumptions": ["heap capacity E+2 (capacity overflow is an assumption)", "graph states satisfy the weighted representation invariant"]}


def c19(tier):
    obs = []
    for und in (0, 1):
        obs.append(dij_ob("C19", und, 2, 3, optional_reach=[""]))
        if tier == "thorough":
            for s in range(3):
                obs.append(dij_ob("C19", und, 3, 4, fixs=s, timeout=3400, mem_gb=16))
    for und in (0, 1):
        for alg in (0, 1):
            for n in ((2, 3) if tier == "quick" else (2, 3, 4)):
                if n == 4:
                    for s in range(4):
                        obs.append(bfs_ob("C19", und, n, alg, fixs=s, timeout=3000, mem_gb=12, optional_reach=[""]))
                else:
                    obs.append(bfs_ob("C19", und, n, alg, optional_reach=[""]))
    if tier == "thorough":
        defs = {"N": 9, "NM": 9, "DUP": 1, "VH_LC": 2, "UND": 0, "ALG": 1, "FAMILY": 1, "VERIF_VEC_CAP": 9, "VERIF_LIST_CAP": 3, "VERIF_LIST_FRONT": 0, "VERIF_KEY_MAX": 1, "VERIF_QUEUE_CAP": 40, "VERIF_SET_CAP": 2, "VERIF_MAP_CAP": 2}
        obs.append({"id": "C19/dir/layered-1-2-2-2-2/findAllVertexPredecessors", "src": "bfs.cpp", "defs": defs, "bounds": "findAllVertexPredecessors&#0=42,findAllVertexPredecessors&#1=4,harness=11,vector=11,resize=11,default=6", "timeout": 3400, "mem_gb": 20, "cap_exempt": True, "optional_reach": [""], "no_validate": False})
    return obs


PROPS["C11"] = {"gen": c11,
    "bounds": {"quick": "every directed and undirected graph on 1..3 vertices (cycles, self-loops, several components), every neighbour order, every source and destination; findAllGeodesics on 1..2 vertices, findAllGeodesicsFromVertex on 1 vertex", "thorough": "all-geodesics on 3 vertices (one sub-query per source/destination pair); the predecessor searches, findGeodesics and findPathToVertexFromPredecessors on 4 vertices (one sub-query per source)"},
    "outside": "graphs of 5-6 vertices and random larger graphs named by the property text (N=5 does not finish within the budget); labelled graph types (the searches do not read labels)",
    "explanation": "Results are compared with hop distances and shortest-path counts computed in the harness by n rounds of relaxation over the symbolic adjacency matrix; returned paths are checked edge by edge; all-geodesics results for count, validity and pairwise difference.",
    "assumptions": ["graph states satisfy RI_dir / RI_und", "queue/stack capacities of the model (n*n+2 for the all-predecessor searches) are not exceeded (capacity overflow is an assumption)"]}
PROPS["C19"] = {"gen": c19,
    "bounds": {"quick": "findVertexPredecessors (<= V scans) and findAllVertexPredecessors (<= V+E scans) on every directed/undirected graph of 2..3 vertices, every source; Dijkstra (<= V+E+1) on 2..3 vertices with up to 3 edges",
               "thorough": "4 vertices; the layered family 1-2-2-2-2 (9 vertices, every subset and order of edges between consecutive layers) for findAllVertexPredecessors"},
    "outside": "graphs beyond these sizes - the asymptotic statement is claimed only up to them",
    "explanation": "The searches are instantiated on a harness-defined graph type that counts getOutNeighbours calls; the assertions are exactly the totals the property states.",
    "assumptions": ["queue capacity 40 on the layered family"]}


def c17(tier):
    """safety mode: the harnesses of the other properties re-run with the functional assertions ignored and the std-model
       preconditions plus CBMC's bounds / pointer / signed-overflow / shift / division checks as the verdict"""
    import re
    picks = []
    def take(gen, pat, limit=None):
        got = [o for o in gen(tier) if re.search(pat, o["id"])]
        picks.extend(got[:limit] if limit else got)
    if tier == "quick":
        take(c01, r"/dir/int/n3/.*/(core|neigh|edges|matrix)$")
        take(c02, r"/und/int/n3/.*/(core|neigh|degree)$")
        take(c02, r"/und/int/n2/anystate/edges$")
        take(c03, r"/(dir|und)/(string|struct)/n3/(addEdge|removeEdge|setEdgeLabel|readd-rm2)/core$")
        take(c04, r"/(dmg|umg)/n3/[^/]*/(core|degree|matrix)$")
        take(c04, r"wide/(setEdgeMultiplicity|removeMultiedge)")
        take(c05, r"/(dwg|uwg)/n3/[^/]*/(core|wmatrix)$")
        take(c16_simple, r"/(dir|und)/int/.*/core$")
        take(c16_mg, r"/core$")
        take(c16_wg, r"/core$")
        take(c06, r"/(dir-int|umg)/n3-3/(eq|copyctor-indep)$")
        take(c08, r"/(traversal|step|begin|vertices)$")
        take(c09, r"/n[02]$|ctor-.*-list$")
        take(c10, r"/n2-S[0-9empty]*$")
        take(c11, r"/n3/(findVertexPredecessors|findGeodesics|findGeodesicsFromVertex|findPathToVertexFromPredecessors)$|/n2/findAll")
        take(c12, r"n2-e|n3-e.*-s0$|forward-family")
        take(c13, r"tokeniser|loadTextEdgeList-dir-2lines$|writeTextEdgeList-dir")
        take(c14, r"/dir/(int|double|nolabel)/")
        take(c15_bin, r"/dir/(int|u8)/")
    else:
        # deeper tier of the harness families that exercise iterators, work lists, heaps, buffers and streams; the single-step harnesses
        # are taken at the quick tier's selection (vf adds the quick tier's obligations to every thorough run). A first selection of
        # 576 deeper queries in safety mode ran past two hours and was cut down to these.
        take(c01, r"/dir/int/n4/(removeVertexFromEdgeList|removeSelfLoops|removeEdge)/core$")
        take(c04, r"wide")
        take(c08, r".")
        take(c10, r"/n3-S[0-9empty]*$")
        take(c11, r"/n3/")
        take(c12, r".")
        take(c13, r".")
        take(c14, r"/dir/|/und/(int|nolabel)/")
        take(c15_bin, r".")
        take(c15_txt, r".")
    out = []
    for o in picks:
        o = dict(o)
        o["id"] = "C17/" + o["id"]
        o.update(only_ub=True, safety=True, count_ub=True, optional_reach=[""])
        out.append(o)
    # the pair hash of the label store is executed (overflow / shift checked) in one step harness
    h = step("C17", "step_dir.cpp", "dir-hash", 3, 3, 1, 0, 0, defs={"VERIF_EXEC_HASH": None})
    h.update(only_ub=True, safety=True, count_ub=True, optional_reach=[""])
    out.append(h)
    return out


PROPS["C17"] = {"gen": c17,
    "bounds": {"quick": "the 3-vertex (2 where stated) obligations of C01-C12, C16 re-run in safety mode, one label type per class", "thorough": "also the 4-vertex obligations"},
    "outside": "independence from compiler and optimisation level (only clang-14 -O0+SROA IR is analysed; other configurations only through the replay builds); undefined behaviour inside libstdc++ itself or needing the real allocator (leaks, double free)",
    "explanation": "Within the bounds and inputs of the listed harnesses no precondition of a standard-library facility is violated (iterator validity, front/back/pop on empty, operator[] range, pop_heap on a non-heap for the comparator used, substr position), no array bound, pointer, signed-overflow, shift or division check of CBMC fails in the translated BaseGraph code. A result depending on an uninitialised value is a functional failure of the owning property (undef is nondeterministic in the encoding).",
    "assumptions": ["as in the re-used harnesses"]}


BL_NAMES = {0: "nolabel", 1: "u8", 2: "u16", 3: "int", 4: "u64", 5: "float", 6: "double"}
BL_SIZE = {0: 0, 1: 1, 2: 2, 3: 4, 4: 8, 5: 4, 6: 8}
BIN_Q = {0: "layout", 1: "roundtrip", 2: "records-any-order", 3: "truncated", 4: "open-failure", 5: "swapBytes", 6: "decode-any-index-bytes", 7: "encode-any-index"}


def bin_ob(prop, und, bl, q, n=3, emaxw=2, recs=2, **kw):
    rec = 8 + BL_SIZE[bl]
    defs = caps(n, n)
    defs.update({"UND": und, "BL": bl, "Q": q, "EMAXW": emaxw, "RECS": recs, "VERIF_FILE_CAP": max(emaxw, recs) * rec + 1, "VERIF_LIST_CAP": max(n, recs) + 1})
    b = graph_bounds(defs) + ",loadBinaryEdgeList=%d,le_bytes=10" % (max(emaxw, recs) + 3)
    b = "harness=%d,file_set=%d,write=%d,read=%d,put_=%d," % (max(12, n * n + n + 2), defs["VERIF_FILE_CAP"] + 2, 10, 10, 10) + b
    ob = {"id": "%s/%s/%s/%s%s" % (prop, "und" if und else "dir", BL_NAMES[bl], BIN_Q[q], "-n%d-e%d" % (n, emaxw) if q < 2 else ("-r%d" % recs if q in (2, 3, 6, 7) else "")), "src": "binio.cpp", "defs": defs, "bounds": b, "count_ub": True, "optional_reach": [""], "no_validate": q in (0, 1, 2, 3, 4, 6, 7) }
    if q in (6, 7):
        defs["VERIF_VEC_CAP"] = max(recs, 1) + 1     # the recording graph keeps its edge list in a std::vector
        ob["bounds"] = ob["bounds"].replace("default=", "vector=%d,default=" % (recs + 4))
    ob.update(kw)
    return ob


def c14(tier):
    obs = []
    for und in (0, 1):
        for bl in range(7):
            if tier == "quick" and und and bl not in (0, 3, 6):
                continue
            obs.append(bin_ob("C14", und, bl, 0, n=2 if und else 3, emaxw=2 if tier == "quick" else 3, mem_gb=8))
            if tier == "thorough" and bl == 0:   # the direct query with labels (int, double) does not finish in an hour: decided by composition only
                obs.append(bin_ob("C14", und, bl, 1, n=2, emaxw=1, timeout=3400, mem_gb=12))
            obs.append(bin_ob("C14", und, bl, 2, n=3, recs=2 if tier == "quick" else 3))
            if not und:
                obs.append(bin_ob("C14", und, bl, 5))
                obs.append(bin_ob("C14", und, bl, 6, n=1, recs=2 if tier == "quick" else 3))
                obs.append(bin_ob("C14", und, bl, 7, n=1, recs=2 if tier == "quick" else 3))
        obs.append(bin_ob("C14", und, 3, 4))
        obs.append(bin_ob("C14", und, 0, 4))
    return obs


def c15_bin(tier):
    obs = []
    for und in (0, 1):
        for bl in range(7):
            if tier == "quick" and und and bl not in (0, 3):
                continue
            obs.append(bin_ob("C15", und, bl, 3, n=3, recs=2 if tier == "quick" else 3))
            if not und:
                o = bin_ob("C15", und, bl, 6, n=1, recs=2 if tier == "quick" else 3)
                o["id"] += "-cut"; o["defs"]["CUT"] = 1
                obs.append(o)
    return obs


PROPS["C14"] = {"gen": c14,
    "bounds": {"quick": "written graphs: 3 vertices (2 when undirected) / <=2 edges (layout), round trips are decided by composition: the layout obligation (the file is exactly one record per enumerated edge) with the loader obligation (any record sequence loads to exactly those edges and labels); the direct write-load-compare query on 2 vertices / 1 edge is in the thorough tier for unlabelled graphs (with int or double labels it ran past an hour without a verdict and is not claimed); hand-made files of 2 records with indices < 3 in any order; decoder and encoder for the full index range: loadBinaryEdgeList / writeBinaryEdgeList instantiated with a recording graph class (they are templates over the graph class), 2 records, every byte of the index fields symbolic (all 32-bit indices except 0xffffffff); labels NoLabel, uint8_t, uint16_t, int, uint64_t (full range), float, double (4 table values); directed (all label types) and undirected (NoLabel, int, double)",
               "thorough": "<=3 edges / 3 records; undirected for every label type"},
    "outside": "longer files; behaviour on a big-endian host (SYSTEM_IS_BIG_ENDIAN is false in every build this sandbox can produce - only the swapBytes kernel that branch would use is checked)",
    "explanation": "The writer and loader run on an in-memory stream model; bytes are compared with shifts in the harness (no memcpy on the host representation), the loaded graph with the abstraction of the written one.",
    "assumptions": ["stream model: read copies what is there, a short read sets eofbit|failbit, an input function on a stream that is not good() sets failbit and extracts nothing, peek() returns the next byte as unsigned char or traits::eof() (istream.unformatted, istream::sentry)",
                    "recording graph class for the full-index-range obligations: (0)-constructor, getSize, resize, addEdge(.., force), edges(), getEdgeLabel - what the two templates ask of a graph class"]}


TXT_Q = {0: "tokeniser", 1: "loadTextEdgeList", 2: "loadTextVertexLabeledEdgeList", 3: "writeTextEdgeList", 4: "arbitrary-text"}


def txt_ob(prop, q, und=0, lab=0, lines=2, llen=6, n=3, emaxw=2, full=False, **kw):
    if q == 0:
        strcap, filecap, veccap = llen + 1, 2, 3
    elif q in (1, 2):
        strcap, filecap, veccap = 9, lines * 10 + 1, 3
    elif q == 3:
        strcap, filecap, veccap = 3, 24 + emaxw * 6 + 1, n
    else:
        strcap, filecap, veccap = llen + 1, llen + 1, 11
    defs = {"N": n, "NM": n, "DUP": 1, "Q": q, "UND": und, "LAB": lab, "LINES": lines, "LLEN": llen, "EMAXW": emaxw, "VERIF_STR_CAP": strcap, "VERIF_FILE_CAP": filecap, "VERIF_VEC_CAP": veccap,
            "VERIF_LIST_CAP": max(lines, n, 2) + 1, "VERIF_KEY_MAX": 3 if q != 4 else 4, "VERIF_MAP_CAP": 4, "VERIF_SET_CAP": 4}
    if full:
        defs["FULLBYTES"] = None
    nlines = (lines if q in (1, 2) else llen + 1) + 2
    b = "loadTextVertexLabeledEdgeList=%d,harness=%d,file_set=%d,getline_=%d,operator<<=%d,unordered_map=%d,vector=%d,resize=%d,default=%d" % (nlines, max(llen, lines * 10, 24, n * n + n) + 3, filecap + 2, filecap + 2, filecap + 2, 18, veccap + 2, veccap + 2, max(strcap, 6) + 2)
    name = {0: "tokeniser-len%d" % llen, 1: "loadTextEdgeList-%s-%dlines%s" % ("und" if und else "dir", lines, "-labelled" if lab else ""), 2: "loadTextVertexLabeledEdgeList-%s-%dlines%s" % ("und" if und else "dir", lines, "-labelled" if lab else ""),
            3: "writeTextEdgeList-%s%s-n%d-e%d" % ("und" if und else "dir", "-labelled" if lab else "", n, emaxw), 4: "arbitrary-text-len%d%s" % (llen, "-allbytes" if full else "")}[q]
    ob = {"id": "%s/%s" % (prop, name), "src": "textio.cpp", "defs": defs, "bounds": b, "count_ub": True, "optional_reach": [""], "no_validate": True}
    ob.update(kw)
    return ob


def c13(tier):
    obs = [txt_ob("C13", 0, llen=6 if tier == "quick" else 10)]
    for und in (0, 1):
        for lab in (0, 1):
            obs.append(txt_ob("C13", 1, und=und, lab=lab, lines=2 if tier == "quick" else 3, timeout=900 if tier == "quick" else 3400, mem_gb=8 if tier == "quick" else 16))
            if not und or tier == "thorough":
                obs.append(txt_ob("C13", 3, und=und, lab=lab, n=3 if not und else 2, emaxw=2, **({"mem_gb": 14, "timeout": 3000} if und else {})))
            else:
                obs.append(txt_ob("C13", 3, und=und, lab=lab, n=1, emaxw=1, mem_gb=8))     # undirected writer on 2 vertices: thorough tier
        obs.append(txt_ob("C13", 2, und=und, lab=0, lines=2 if tier == "quick" else 3, timeout=900 if tier == "quick" else 3400, mem_gb=8 if tier == "quick" else 16))
    return obs


def c15_txt(tier):
    obs = [txt_ob("C15", 0, llen=6 if tier == "quick" else 10)]
    if tier == "quick":
        obs.append(txt_ob("C15", 4, llen=4, timeout=1200, mem_gb=8))
    else:
        obs.append(txt_ob("C15", 4, llen=5, timeout=3400, mem_gb=20))
        obs.append(txt_ob("C15", 4, llen=3, full=True, timeout=3400, mem_gb=20))
    for o in obs:
        if o["defs"]["Q"] == 4:
            # "vertex indices kept small enough to allocate": a two-digit index asks for more vertices than the vector model holds (11)
            o["allowed_cuts"] = ["std::vector model: resize beyond VERIF_VEC_CAP"]
    return obs


PROPS["C13"] = {"gen": c13,
    "bounds": {"quick": "tokeniser: every line of <=6 bytes over {'0','1','a',' ','\\t','#'}; loaders: every well-formed file of 2 lines (comment or edge line, optional leading/trailing blank, 1-2 separating blanks from {space, tab}, single-character vertex tokens 0-2 / a-c, optional one-digit label, last line with or without newline), directed and undirected, NoLabel and int; writer: graphs of 3 (2 undirected) vertices and <=2 edges, labels 0-9",
               "thorough": "tokeniser lines of <=10 bytes; files of 3 lines"},
    "outside": "multi-digit vertex indices and labels, files longer than 3 lines, label codecs other than one decimal digit; the direct write-then-load round trip is decided by composition of the writer obligation (exact bytes per enumerated edge) with the loader obligation (every well-formed file loads to exactly its edge lines)",
    "explanation": "Well-formed files are generated from a symbolic structure, so the expected graph is known by construction; the tokeniser is compared with a reference split on arbitrary lines; the writer's bytes are compared one by one.",
    "assumptions": ["stream/string model: getline extracts up to and excluding the newline, sets failbit when nothing is extracted"]}
PROPS["C15"] = {"gen": lambda tier: c15_bin(tier) + c15_txt(tier),
    "bounds": {"quick": "binary: valid files of 2 records (indices < 3, all label types directed; NoLabel and int undirected) cut at EVERY byte offset 0..len; text: every byte string of <=4 bytes over {'0','1','9','-','+',' ','\\t','#','x','\\n',0x80} through loadTextEdgeList, every line of <=6 bytes through the tokeniser", "thorough": "3 records; text of <=5 bytes over the alphabet and <=3 arbitrary bytes"},
    "outside": "longer files; text indices above 10 (the vector model holds 11 vertices: the declared capacity cut \"resize beyond VERIF_VEC_CAP\", reported in the evidence)",
    "explanation": "The buffer is a valid file cut at a symbolic offset; the loader must throw or return exactly the edges of the complete records. A short read leaves its destination partly unwritten, and unwritten / stale locals are nondeterministic in the encoding, so an edge pieced together from a partial record is a reachable assertion failure.",
    "assumptions": ["stream model: a short read copies what is there and sets failbit; once failed nothing is extracted"]}


MON_ENTRIES = {0: "size-edgeNumber-hasEdge", 1: "getOutNeighbours", 2: "vertex-iteration", 3: "edges", 4: "copy", 5: "equality", 6: "getAdjacencyMatrix", 7: "getEdgeLabel-hasEdgeLabel", 8: "reverse-or-getDirectedGraph",
               9: "degrees", 10: "getSubgraph", 11: "getSubgraphWithRemap", 12: "findVertexPredecessors", 13: "findAllVertexPredecessors", 14: "findGeodesics", 15: "findAllGeodesics", 16: "writeBinaryEdgeList",
               17: "writeTextEdgeList", 18: "undirected-from-directed", 19: "operator<<", 20: "multiplicity-or-weight-observers", 21: "findGeodesicsDijkstra", 99: "CONTROL-mutator-after-freeze"}


def mon_ob(kind, entry, n, **kw):
    nm = max(n, 1)
    defs = caps(n, n)
    defs.update({"KIND": kind, "ENTRY": entry})
    und = kind in (1, 3, 5)
    b = graph_bounds(defs, und=und)
    if entry in (12, 13, 14, 15, 21):
        front = nm if entry == 14 else (max(nm - 1, 1) if entry == 15 else 0)
        defs.update({"VERIF_LIST_FRONT": front, "VERIF_LIST_CAP": front + nm + 1, "VERIF_QUEUE_CAP": nm * nm + 2, "VERIF_HEAP_CAP": nm * nm + 2, "VERIF_VEC_CAP": max(nm, nm * nm + 2) if entry == 21 else nm})
        b = ("verif_=%d,findVertexPredecessors=%d,findAllVertexPredecessors&#0=%d,findAllVertexPredecessors&#1=%d,findMultiplePathsToVertexFromPredecessors=%d,findPathToVertexFromPredecessors=%d,findGeodesicsDijkstra&#0=%d,findGeodesicsDijkstra&#1=%d,unordered_map=%d,default=%d"
             % (nm * nm + 4, nm + 2, nm + 3, nm + 2, nm * nm + 4, nm + 2, nm * nm + 4, nm + 2, nm * nm + 2, max(front + nm + 3, nm + 3, defs["VERIF_VEC_CAP"] + 2)))
    if entry in (16, 17):
        defs.update({"VERIF_FILE_CAP": 24 + nm * nm * 12 + 1, "VERIF_STR_CAP": 3})
        b = "put_=%d,operator<<=%d,write=10," % (defs["VERIF_FILE_CAP"] + 2, defs["VERIF_FILE_CAP"] + 2) + b
    ob = {"id": "C18/%s/n%d/%s" % (KIND_NAMES[kind], n, MON_ENTRIES[entry]), "src": "monitor.cpp", "defs": defs, "bounds": b, "monitor": True, "optional_reach": [""], "no_validate": True}
    if entry == 99:
        ob["expect_fail"] = ["MON: const operation writes shared state"]
    ob.update(kw)
    return ob


def c18(tier):
    obs = []
    heavy_und = (3, 6, 8, 16, 17, 19, 10, 11, 13, 15)
    for kind in range(6):
        und = kind in (1, 3, 5)
        entries = [0, 1, 2, 3, 4, 5, 6, 9, 19, 99]
        if kind in (0, 1):
            entries += [7, 8, 10, 11, 12, 13, 14, 15, 16, 17]
        if kind == 0:
            entries += [18]
        if kind >= 2:
            entries += [20]
        if kind >= 4:
            entries += [21]
        for e in sorted(entries):
            n = 3
            if tier == "quick" and (e in (10, 11, 13, 15, 21) or (und and e in heavy_und)):
                n = 2
            if tier == "quick" and (e == 15 or (und and e == 17)):
                n = 1
            kw = {"mem_gb": 8}
            if tier == "thorough":
                kw.update(timeout=3400, mem_gb=14)
                if und and e in (3, 8, 16, 17, 19) or e in (15,):
                    n = 2
            obs.append(mon_ob(kind, e, n, **kw))
    return obs


PROPS["C18"] = {"gen": c18,
    "technique": "bounded symbolic execution with a write-set monitor: every store/memcpy/memset of the const entry point is asserted not to land in the shared graph or in mutable namespace-scope state (clang IR -> C -> CBMC/SAT)",
    "bounds": {"quick": "arbitrary valid shared graph on 3 vertices (2 for the subgraph / all-predecessor / Dijkstra entry points and the undirected traversals), all eight classes, ~20 const entry points each with arbitrary arguments", "thorough": "3 vertices for all but the undirected whole-graph traversals"},
    "outside": "the interleavings themselves are not explored: the claim is the reduction 'no shared write and no read of mutable state other than the graph => race-free and deterministic', plus the trusted fact that const member functions of the real standard containers are race-free ([res.on.data.races])",
    "explanation": "Write-set monitor: after __VERIFIER_freeze(&g) every emitted store, memcpy and memset is preceded by an assertion that it does not land in g or in mutable namespace-scope state, every load of such state likewise; function-local static initialisation (__cxa_guard) is flagged. The control query (a mutator after the freeze) must be flagged in every run.",
    "assumptions": ["const member functions of the real standard containers do not write (the model's do not)"]}


def obligations(prop, tier):
    """thorough = the quick tier's obligations (strict) plus the deeper ones (each under the thorough budget, see vf)"""
    obs = PROPS[prop]["gen"](tier)
    if tier == "thorough":
        quick = PROPS[prop]["gen"]("quick")
        ids = set(o["id"] for o in quick)
        obs = quick + [o for o in obs if o["id"] not in ids]
    return obs
