"""Obligations (CBMC queries) per property and tier.  One obligation = one harness source + -D parameters + loop bounds."""

LT_NAMES = {0: "nolabel", 1: "int", 2: "uchar", 3: "double", 4: "string", 5: "struct"}
DIR_OPS = {0: "addEdge", 1: "addEdgeDefault", 2: "addReciprocalEdge", 3: "removeEdge", 4: "removeSelfLoops", 5: "removeVertexFromEdgeList",
           6: "clearEdges", 7: "resize", 8: "setEdgeLabel", 9: "ctor", 10: "readd", 11: "addReciprocalEdgeDefault", 12: "forceAdd", 13: "removeDuplicateEdges", 14: "anystate"}
OBS_NAMES = {0: "core", 1: "neigh", 2: "indeg", 3: "indegs", 4: "matrix", 5: "edges"}


def caps(N, NM, DUP=1, extra_list=1, **more):
    d = {"N": N, "NM": max(NM, 1), "DUP": DUP, "VERIF_VEC_CAP": max(NM, 1), "VERIF_LIST_CAP": DUP * max(NM, 1) + extra_list,
         "VERIF_KEY_MAX": max(NM, 1), "VERIF_SET_CAP": max(NM, 1) + 1, "VERIF_MAP_CAP": max(NM, 1) + 1}
    d.update(more)
    return d


def default_bound(defs):
    return "default=%d" % (max(defs["VERIF_LIST_CAP"], defs["VERIF_VEC_CAP"], defs["VERIF_KEY_MAX"], defs.get("VERIF_SET_CAP", 0), defs.get("VERIF_QUEUE_CAP", 0), defs.get("VERIF_STR_CAP", 0), defs.get("VERIF_FILE_CAP", 0)) + 2)


def graph_bounds(defs):
    """per-loop unwinding bounds for harnesses over the graph classes: edge traversals visit every list entry and skip every vertex"""
    nm, dup = defs["NM"], defs.get("DUP", 1)
    e = nm * nm * dup + nm + 2
    names = ["harness", "getInDegree", "getInDegrees", "getAdjacencyMatrix", "getReversedGraph", "getDirectedGraph", "getOutDegrees", "writeTextEdgeList", "writeBinaryEdgeList", "edge_walk"]
    it = "operator++#0&Undirected=%d,operator++=%d,begin=%d," % (nm * nm * dup + 2, nm + 2, nm + 2)
    return it + ",".join("%s=%d" % (k, e) for k in names) + ",unordered_map=%d," % (defs["VERIF_KEY_MAX"] ** 2 + 2) + default_bound(defs)


def step(prop, src, tag, N, NM, LT, OP, OBS, DUP=1, opnames=DIR_OPS, **kw):
    defs = caps(N, NM, DUP)
    defs.update({"LT": LT, "OP": OP, "OBS": OBS})
    if LT == 4:
        defs["VERIF_STR_CAP"] = 3
    defs.update(kw.pop("defs", {}))
    ob = {"id": "%s/%s/%s/n%d%s/%s/%s" % (prop, tag, LT_NAMES[LT], N, ("d%d" % DUP) if DUP > 1 else "", opnames[OP] + ("-rm%d" % defs["RM"] if "RM" in defs else ""), OBS_NAMES[OBS]),
          "src": src, "defs": defs, "bounds": graph_bounds(defs)}
    ob.update(kw)
    return ob


# ------------------------------------------------------------------------------------------------ C01
EMPTY_AFTER = ["several", "observed pair is an edge"]  # reach marks that cannot be hit when the step leaves no edge


def c01(tier):
    """steps: mutator x {core, neigh} pin the post-state's representation (RI + abstraction = spec);
       observers: every remaining observer on an arbitrary valid state (they are functions of the representation)."""
    obs = []
    ops = [0, 1, 2, 11, 3, 4, 5, 6, 7, 9]
    if tier == "quick":
        plan = [(lt, n) for lt in (0, 1) for n in (0, 1, 2, 3)] + [(lt, 3) for lt in (2, 3, 4, 5)]
    else:
        plan = [(lt, n) for lt in (0, 1) for n in (0, 1, 2, 3, 4)] + [(lt, n) for lt in (2, 3, 4, 5) for n in (2, 3)]
    for lt, n in plan:
        for op in ops:
            if n == 0 and op in (0, 1, 2, 11, 3, 5):   # these take a vertex argument: no valid call on zero vertices
                continue
            if tier == "quick" and lt >= 2 and op in (1, 11, 9, 7):
                continue
            nm = n + 1 if op == 7 else n
            for o in (0, 1):
                kw = {"optional_reach": [""]} if n < 3 else {"optional_reach": EMPTY_AFTER} if op in (6, 9) else {}
                obs.append(step("C01", "step_dir.cpp", "dir", n, nm, lt, op, o, defs={"NO_LABEL_CHECKS": None}, **kw))
        for o in (2, 3, 4, 5):
            if tier == "quick" and lt >= 2 and o != 5:
                continue
            kw = {"optional_reach": [""]} if n < 3 else {}
            obs.append(step("C01", "step_dir.cpp", "dir", n, n, lt, 14, o, defs={"NO_LABEL_CHECKS": None}, **kw))
    return obs


UND_OPS = dict(DIR_OPS)
UND_OBS = {0: "core", 1: "neigh", 2: "degree", 4: "matrix", 5: "edges"}


def c02(tier):
    obs = []
    ops = [0, 1, 3, 4, 5, 6, 7, 9]
    if tier == "quick":
        plan = [(lt, n) for lt in (0, 1) for n in (0, 1, 2, 3)] + [(lt, 3) for lt in (2, 3, 4, 5)]
    else:
        plan = [(lt, n) for lt in (0, 1) for n in (0, 1, 2, 3, 4)] + [(lt, n) for lt in (2, 3, 4, 5) for n in (2, 3)]
    for lt, n in plan:
        for op in ops:
            if n == 0 and op in (0, 1, 3, 5):
                continue
            if tier == "quick" and lt >= 2 and op in (1, 9, 7):
                continue
            nm = n + 1 if op == 7 else n
            for o in (0, 1):
                kw = {"optional_reach": [""]} if n < 3 else {"optional_reach": EMPTY_AFTER} if op in (6, 9) else {}
                obs.append(step("C02", "step_und.cpp", "und", n, nm, lt, op, o, defs={"NO_LABEL_CHECKS": None}, **kw))
        for o in (2, 4, 5):
            if tier == "quick" and lt >= 2 and o != 4:
                continue
            if o == 5 and n >= 3 and (tier == "quick" or lt > 1):
                continue     # whole-graph traversal of the undirected iterator at 3 vertices: thorough tier (the iterator is covered step-wise by C08)
            kw = {"optional_reach": [""]} if n < 3 else {}
            if o == 5 and n >= 3:
                kw.update(timeout=3000, mem_gb=16)
            ob = step("C02", "step_und.cpp", "und", n, n, lt, 14, o, defs={"NO_LABEL_CHECKS": None}, **kw)
            ob["id"] = ob["id"].replace("/" + OBS_NAMES.get(o, "?"), "/" + UND_OBS[o])
            obs.append(ob)
    return obs


def c03(tier):
    """label lifetime: the same step harnesses with the label-store checks on, labelled types only, plus remove-then-re-add"""
    obs = []
    lts = (1, 2, 3, 4, 5)
    ns = (3,) if tier == "quick" else (2, 3, 4)
    for src, tag, ops in (("step_dir.cpp", "dir", [0, 1, 2, 11, 3, 4, 5, 6, 7, 8, 9]), ("step_und.cpp", "und", [0, 1, 3, 4, 5, 6, 7, 8, 9])):
        for lt in lts:
            for n in ns:
                if n == 4 and lt not in (1, 5):
                    continue
                for op in ops:
                    if tier == "quick" and lt not in (1, 4) and op in (1, 11, 2, 7, 9):
                        continue
                    nm = n + 1 if op == 7 else n
                    kw = {"optional_reach": EMPTY_AFTER} if op in (6, 9) else {}
                    obs.append(step("C03", src, tag, n, nm, lt, op, 0, **kw))
                for rm in (0, 1, 2, 3):
                    if tier == "quick" and lt not in (1, 4):
                        continue
                    obs.append(step("C03", src, tag, n, n, lt, 10, 0, defs={"RM": rm}, optional_reach=["observed pair is not an edge"] if n < 2 else []))
    return obs


def c16_simple(tier):
    """forced duplicates on the simple / labelled classes"""
    obs = []
    for src, tag, observers in (("step_dir.cpp", "dir", (0, 1, 4, 5)), ("step_und.cpp", "und", (0, 1, 4, 5))):
        for lt in ((0, 1) if tier == "quick" else (0, 1, 3, 4)):
            for n in ((2,) if tier == "quick" else (2, 3)):
                dup = 2 if (tier == "quick" or n == 3) else 3
                for op in (12, 3, 13):
                    for o in (0, 1):
                        obs.append(step("C16", src, tag, n, n, lt, op, o, DUP=dup))
                for o in observers[2:]:
                    ob = step("C16", src, tag, n, n, lt, 14, o, DUP=dup)
                    if tag == "und":
                        ob["id"] = ob["id"].replace("/" + OBS_NAMES.get(o, "?"), "/" + UND_OBS[o])
                    obs.append(ob)
    return obs


PROPS = {
    "C01": {"gen": c01,
            "bounds": {"quick": "graphs of 0..3 vertices (NoLabel, int), 3 vertices (unsigned char, double, std::string capacity 8, user struct); one mutator step from every valid duplicate-free state; resize up to +1 vertex",
                       "thorough": "graphs of 0..4 vertices (NoLabel, int), 2..3 vertices (other label types)"},
            "outside": "graphs with more vertices than the bound; force=true (C16); label types other than the six instantiated",
            "explanation": "Inductive step: arbitrary valid pre-state (representation invariant assumed) -> one real mutator with arbitrary in-range arguments -> every observer must equal its definition on the specified abstract post-state; constructor = base case. All steps UNSAT => every finite history on <=N vertices is covered.",
            "assumptions": ["pre-state satisfies RI_dir: entries < size, duplicate free lists, edgeNumber = sum of list lengths, label store keys = edge set"]},
}


PROPS["C02"] = {"gen": c02,
    "bounds": {"quick": "undirected graphs of 0..3 vertices (NoLabel, int), 3 vertices (other label types); every symmetric state, every neighbour order, either orientation of each call",
               "thorough": "0..4 vertices (NoLabel, int), 2..3 vertices (other label types)"},
    "outside": "graphs with more vertices than the bound; force=true (C16)",
    "explanation": "Inductive step on the symmetric copy-count matrix: arbitrary symmetric pre-state (each list an arbitrary ordering of its row), one mutator naming its pair in an arbitrary orientation, all observers compared with their definition.",
    "assumptions": ["pre-state satisfies RI_und: symmetric lists, a self-loop listed once, edgeNumber = number of unordered pairs, label keys (min,max) = edge set"]}
PROPS["C03"] = {"gen": c03,
    "bounds": {"quick": "directed and undirected labelled graphs on 3 vertices; labels int (32 bit), unsigned char, double (8 table values), std::string (<=2 chars over {a,b}), user struct",
               "thorough": "2..4 vertices"},
    "outside": "setEdgeLabel(force=true); graphs with more vertices than the bound",
    "explanation": "The step harnesses of C01/C02 with the label-store clauses of the representation invariant asserted on the post-state (keys = edge set) and the label observers (getEdgeLabel throwing / non-throwing, hasEdge(i,j,l)); plus remove-by-each-removal then re-add.",
    "assumptions": ["pre-state: label store has an entry exactly for the existing edges"]}
PROPS["C16"] = {"gen": c16_simple,
    "bounds": {"quick": "2 vertices, up to 2 copies per pair", "thorough": "2 vertices with up to 3 copies, 3 vertices with up to 2 copies"},
    "outside": "more copies / vertices than the bound",
    "explanation": "Step harnesses with duplicate copies allowed in the pre-state (RI_dup): forced insertion, removeEdge (all copies), removeDuplicateEdges; observers count per copy.",
    "assumptions": ["pre-state satisfies RI_dup: every pair at most DUP times per list, undirected half-lists carry equal counts, one label entry per connected pair"]}


def obligations(prop, tier):
    return PROPS[prop]["gen"](tier)
