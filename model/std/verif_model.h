#pragma once
// Shared primitives of the std operational model (trusted base, see DESIGN.md §2.1).
#include <cstddef>
extern "C" {
void __VERIFIER_assume(int);
void __VERIFIER_assert(int, const char *);
void __VERIFIER_reach(const char *);
unsigned __VERIFIER_nondet_uint(void);
void __VERIFIER_freeze(const void *);
}
// A precondition of a standard-library facility: violated => undefined behaviour in the real library.
// Reported as "UB: ..." and the path is cut (after UB nothing further is meaningful).
#define VERIF_PRE(c, m) do { bool verif_c_ = (c); __VERIFIER_assert(verif_c_, "UB: " m); __VERIFIER_assume(verif_c_); } while (0)
// Capacity of a work list (queue, stack, heap) exceeded: reported like a loop bound that is too small (check undecided), never silently cut.
// Capacity of a container model exceeded (or a value outside what the model can print): the path is cut, and the cut is an assertion of its
// own class - the driver reports every reachable cut and fails the obligation unless the cut is declared in its specification.
#define VERIF_CUT(c, m) do { bool verif_c_ = (c); __VERIFIER_assert(verif_c_, "CUT: " m); __VERIFIER_assume(verif_c_); } while (0)
#define VERIF_WORK_CAP(c, m) do { bool verif_c_ = (c); __VERIFIER_assert(verif_c_, "unwinding bound: capacity of " m " exceeded"); __VERIFIER_assume(verif_c_); } while (0)
#ifndef VERIF_LIST_CAP
#define VERIF_LIST_CAP 4
#endif
#ifndef VERIF_LIST_FRONT
#define VERIF_LIST_FRONT 0
#endif
#ifndef VERIF_VEC_CAP
#define VERIF_VEC_CAP 4
#endif
#ifndef VERIF_MAP_CAP
#define VERIF_MAP_CAP 4
#endif
#ifndef VERIF_SET_CAP
#define VERIF_SET_CAP 5
#endif
#ifndef VERIF_STR_CAP
#define VERIF_STR_CAP 8
#endif
#ifndef VERIF_KEY_MAX
#define VERIF_KEY_MAX 4
#endif
#ifndef VERIF_QUEUE_CAP
#define VERIF_QUEUE_CAP 8
#endif
#ifndef VERIF_HEAP_CAP
#define VERIF_HEAP_CAP 5
#endif
#ifndef VERIF_FILE_CAP
#define VERIF_FILE_CAP 32
#endif
