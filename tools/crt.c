/* native runtime for the generated C: nondet values come from argv */
#include <stdio.h>
#include <stdlib.h>
#include <string.h>
#include <stdint.h>
static unsigned long vals[1024]; static int nv, pos, failures;
static int exhausted;
static unsigned long next(void) { if (pos >= nv) { if (!exhausted) printf("NOTE: nondet vector exhausted (values past the end are 0)\n"); exhausted = 1; return 0; } return vals[pos++]; }
unsigned nondet_uint(void) { return (unsigned)next(); }
int nondet_int(void) { return (int)next(); }
unsigned long nondet_ulong(void) { return next(); }
_Bool nondet_bool(void) { return next() & 1; }
uint64_t __undef_u64(void) { return 0xA5A5A5A5A5A5A5A5ULL; }
double __undef_f64(void) { return 12345.5; }
void cprover_assume(int c) { if (!c) { printf(exhausted ? "NOTE: stopped at an assumption after the vector was exhausted\n" : "REPLAY: assumption violated\n"); fflush(stdout); exit(exhausted ? (failures ? 1 : 0) : 3); } }
void cprover_assert(int c, const char *m) {
    if (strncmp(m, "REACH: ", 7) == 0) { printf("%s\n", m); return; }
    if (strncmp(m, "CUT: ", 5) == 0) return;   /* capacity cut of the model: the following assumption stops the run */
    if (strncmp(m, "unwinding", 9) == 0 || strncmp(m, "UB: ", 4) == 0 || strncmp(m, "MON: ", 5) == 0) { if (!c) { printf("ASSERT FAIL: %s\n", m); ++failures; } return; }
    printf("ASSERT %s: %s\n", c ? "ok" : "FAIL", m); if (!c) ++failures;
}
void harness(void);
int main(int argc, char **argv) { for (int i = 1; i < argc && nv < 1024; ++i) vals[nv++] = strtoul(argv[i], 0, 10); harness(); fflush(stdout); return failures ? 1 : 0; }
