#!/usr/bin/env python3
"""Regenerates /verif/MANIFEST.json from checks/spec.py (PROPS) so that the manifest always lists what is implemented."""
import json, os, sys
ROOT = os.path.dirname(os.path.dirname(os.path.abspath(__file__)))
sys.path.insert(0, os.path.join(ROOT, "checks"))
import spec

ALL = ["C%02d" % i for i in range(1, 21)]
NA = {
    "C20": "The property is the compiler's and linker's verdict (overload resolution, template instantiation, include guards, ODR) over a matrix of client programs; there is no execution to make symbolic and no assertion over inputs for a solver to decide.",
}
checks = []
for pid in ALL:
    if pid not in spec.PROPS:
        continue
    info = spec.PROPS[pid]
    checks.append({
        "property_id": pid,
        "quick_cmd": "./vf check %s --tier quick" % pid,
        "thorough_cmd": "./vf check %s --tier thorough" % pid,
        "evidence_file": "/verif/evidence/%s.json" % pid,
        "replay_cmd_template": "./vf replay {path}",
        "engine": "ll2c+cbmc",
        "technique": info.get("technique", "bounded symbolic execution of the real headers (clang IR -> C -> CBMC/SAT) against a std operational model"),
        "level_claimed": {"category": "model_checking",
                          "text": info.get("level_text", "Bounded symbolic model checking of the real BaseGraph headers: for all values of the symbolic inputs within the stated bounds the assertions hold (SAT solver verdict UNSAT), every counterexample is replayed against the real build before it is reported. ") + info.get("explanation", ""),
                          "design_ref": "DESIGN.md §5 " + pid},
        "level_note": "Trusted: the std operational model (/verif/model/std, validated each run by replaying solver witnesses on the real libstdc++ build and on the generated C), tools/ll2c, clang-14, CBMC 6.11 + MiniSat. Bounds: " + json.dumps(info.get("bounds")) + ". Outside the claim: " + str(info.get("outside")) + ". The thorough tier runs the quick tier's obligations (strict) plus the deeper queries, each under a budget (VERIF_THOROUGH_CAP seconds, default 1500, and its memory limit); a deeper query that gets no verdict within the budget is printed as UNEXPLORED, listed in the evidence (unexplored_within_budget) and is outside what that run claims. Capacity cuts of the finite std model are assertions of their own class: a reachable cut that the obligation does not declare fails it (exit 2).",
    })
man = {
    "version": 1,
    "setup_cmd": "make -C /verif/tools",
    "hooks": {"guard": "BASEGRAPH_VERIF", "enable": "no hook is needed: the checks compile /repo/include as it is with -fno-access-control and observe through harness-defined derived types; the guard name is reserved and unused",
              "baseline_off_cmd": "cmake --build /repo/_build && ctest --test-dir /repo/_build -j8 --timeout 900", "source_commits": [], "add_only": True},
    "engines": [{"name": "ll2c+cbmc", "path": "/verif/vf", "serves_properties": [c["property_id"] for c in checks],
                 "kind_free_text": "clang++-14 -O0 IR of the real headers over a std operational model -> tools/ll2c (inline, SROA, path-resolved C) -> CBMC 6.11 (MiniSat); counterexamples replayed on g++ / real libstdc++ with ASan, UBSan and _GLIBCXX_DEBUG"}],
    "checks": checks,
    "not_applicable": [{"property_id": p, "reason": NA.get(p, "not implemented yet in this revision of the framework")} for p in ALL if p not in spec.PROPS],
    "notes": "All checks are driven by ./vf (see DESIGN.md §7). Exit 2 = undecided/broken (never a pass). known_findings.txt lists repaired defects (fixed:) and recorded ones (finding:).",
}
json.dump(man, open(os.path.join(ROOT, "MANIFEST.json"), "w"), indent=1)
print("MANIFEST.json: %d checks, %d not applicable" % (len(checks), len(man["not_applicable"])))
