#!/bin/bash
# usage: tools/run_seeded.sh <seed-dir-name> [check ids...]
# Runs the quick checks (default: the property named in meta.json) against a scratch copy of /repo with
# /verif/seeded/<name>/patch.diff applied (VERIF_REPO points the driver at the copy; evidence and replay files of these runs go
# to a scratch directory, not to /verif/evidence). /repo itself is never modified. Prints one line per check.
# Environment: TIER=quick|thorough (default quick), ONLY=<substring of obligation ids>.
set -u
name=$1; shift
dir=/verif/seeded/$name
[ -f $dir/patch.diff ] || { echo "no such seed: $name"; exit 2; }
checks="$@"
[ -z "$checks" ] && checks=$(python3 -c "import json;print(json.load(open('$dir/meta.json'))['property'])")
scratch=$(mktemp -d /tmp/seedrun-$name-XXXX)
trap 'rm -rf $scratch' EXIT
mkdir -p $scratch/repo && git -C /repo archive HEAD include | tar -x -C $scratch/repo
( cd $scratch/repo && patch -p1 -s < $dir/patch.diff ) || { echo "patch does not apply"; exit 2; }
cd /verif
for c in $checks; do
  s=$(date +%s); out=$(VERIF_REPO=$scratch/repo VERIF_OUT=$scratch/out ./vf check $c --tier ${TIER:-quick} ${ONLY:+--only $ONLY} 2>&1); rc=$?; e=$(date +%s)
  nv=$(echo "$out" | grep -c '^VIOLATION')
  echo "seed=$name check=$c exit=$rc violations=$nv wall=$((e-s))s :: $(echo "$out" | tail -1)"
  echo "$out" | grep -E "counterexample:|UNDECIDED" | head -3 | cut -c1-400
done
