#!/bin/bash
# usage: tools/run_seeded.sh <seed-dir-name> [check ids...]   - applies /verif/seeded/<name>/patch.diff to /repo, runs the quick
# checks (default: the property named in meta.json), reverts the patch, prints one line per check. Never commits anything in /repo.
set -u
name=$1; shift
dir=/verif/seeded/$name
[ -f $dir/patch.diff ] || { echo "no such seed: $name"; exit 2; }
checks="$@"
[ -z "$checks" ] && checks=$(python3 -c "import json;print(json.load(open('$dir/meta.json'))['property'])")
if ! git -C /repo diff --quiet; then echo "/repo has uncommitted changes - refusing"; exit 2; fi
git -C /repo apply $dir/patch.diff || { echo "patch does not apply"; exit 2; }
trap 'git -C /repo checkout -- . ' EXIT
cd /verif
for c in $checks; do
  s=$(date +%s); out=$(./vf check $c --tier quick 2>&1); rc=$?; e=$(date +%s)
  nv=$(echo "$out" | grep -c '^VIOLATION')
  echo "seed=$name check=$c exit=$rc violations=$nv wall=$((e-s))s :: $(echo "$out" | tail -1)"
  echo "$out" | grep -E "^VIOLATION|counterexample:|UNDECIDED" | head -4
done
