// native runtime for harnesses compiled as C++ (real libstdc++ or model std): nondet values come from argv
#include <cstdio>
#include <cstdlib>
#include <cstring>
static unsigned long vals[1024]; static int nv, pos, failures;
static int exhausted;
extern "C" unsigned __VERIFIER_nondet_uint(void) { if (pos >= nv) { if (!exhausted) std::printf("NOTE: nondet vector exhausted (values past the end are 0)\n"); exhausted = 1; return 0; } return (unsigned)vals[pos++]; }
// second vector (after the argument "--heap"): the choices of the specification-level heap model, for replays with -DSPEC_HEAP
static unsigned long hvals[4096]; static int nh, hpos;
extern "C" unsigned __VERIFIER_nondet_uint_unlogged(void) { return hpos < nh ? (unsigned)hvals[hpos++] : 0; }
extern "C" void __VERIFIER_assume(int c) { if (!c) { std::printf(exhausted ? "NOTE: stopped at an assumption after the vector was exhausted\n" : "REPLAY: assumption violated\n"); std::fflush(stdout); std::_Exit(exhausted ? (failures ? 1 : 0) : 3); } }
extern "C" void __VERIFIER_assert(int c, const char *m) {
    if (std::strncmp(m, "CUT: ", 5) == 0) return;
    if (std::strncmp(m, "UB: ", 4) == 0 || std::strncmp(m, "unwinding", 9) == 0) { if (!c) { std::printf("ASSERT FAIL: %s\n", m); ++failures; } return; }
    std::printf("ASSERT %s: %s\n", c ? "ok" : "FAIL", m); if (!c) ++failures; std::fflush(stdout); }
extern "C" void __VERIFIER_reach(const char *m) { std::printf("REACH: %s\n", m); std::fflush(stdout); }
extern "C" void __VERIFIER_freeze(const void *) {}
extern "C" void harness();
int main(int argc, char **argv) { int i = 1; for (; i < argc && nv < 1024 && std::strcmp(argv[i], "--heap"); ++i) vals[nv++] = std::strtoul(argv[i], 0, 10);
    for (++i; i < argc && nh < 4096; ++i) hvals[nh++] = std::strtoul(argv[i], 0, 10); harness(); std::fflush(stdout); return failures ? 1 : 0; }
