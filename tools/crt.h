/* runtime mapping used when the generated C is compiled natively (translation validation) */
void cprover_assert(int c, const char *m);
void cprover_assume(int c);
#define __CPROVER_assert(c, m) cprover_assert((c) ? 1 : 0, m)
#define __CPROVER_assume(c) cprover_assume((c) ? 1 : 0)
#define __CPROVER_same_object(a, b) 0
