// ll2c: prototype LLVM-IR (typed pointers, clang-14 -O1) -> C translator for CBMC.
// Exceptions are lowered to a pending-flag protocol.
#include "llvm/IR/Constants.h"
#include "llvm/IR/DataLayout.h"
#include "llvm/IR/InstIterator.h"
#include "llvm/IR/Instructions.h"
#include "llvm/IR/IntrinsicInst.h"
#include "llvm/IR/LLVMContext.h"
#include "llvm/IR/Module.h"
#include "llvm/IR/Operator.h"
#include "llvm/IRReader/IRReader.h"
#include "llvm/Support/SourceMgr.h"
#include "llvm/Support/raw_ostream.h"
#include "llvm/Passes/PassBuilder.h"
#include "llvm/IR/Dominators.h"
#include "llvm/Analysis/LoopInfo.h"
#include "llvm/IR/DebugInfoMetadata.h"
#include "llvm/Analysis/LoopAnalysisManager.h"
#include "llvm/Analysis/CGSCCPassManager.h"
#include "llvm/Demangle/Demangle.h"
#include <algorithm>
#include <functional>
#include <array>
#include <map>
#include <set>
#include <sstream>
#include <string>
#include <vector>
using namespace llvm;

static std::map<Type *, std::string> tyName;
static std::vector<std::string> tyDefs; // in dependency order
static std::set<Type *> tyInProgress;
static int tyCounter = 0;
static const DataLayout *DL;
static std::map<const GlobalValue *, int> typeInfoId;

static std::string cty(Type *T);
static std::set<Type *> defined;

static std::string declare(Type *T, const std::string &name) {
    // C declarator for a variable `name` of type T
    if (auto *PT = dyn_cast<PointerType>(T)) {
        Type *E = PT->getPointerElementType();
        if (auto *FT = dyn_cast<FunctionType>(E)) {
            std::string s = cty(FT->getReturnType()) + " (*" + name + ")(";
            for (unsigned i = 0; i < FT->getNumParams(); ++i) {
                if (i) s += ", ";
                s += declare(FT->getParamType(i), "");
            }
            if (FT->isVarArg()) s += FT->getNumParams() ? ", ..." : "";
            if (!FT->getNumParams() && !FT->isVarArg()) s += "void";
            return s + ")";
        }
        return declare(E, "*" + name);
    }
    return cty(T) + " " + name;
}

static std::string cty(Type *T) {
    auto it = tyName.find(T);
    if (it != tyName.end()) return it->second;
    std::string r;
    if (T->isVoidTy()) r = "void";
    else if (T->isIntegerTy()) {
        unsigned w = T->getIntegerBitWidth();
        if (w == 1) r = "_Bool";
        else if (w <= 8) r = "uint8_t";
        else if (w <= 16) r = "uint16_t";
        else if (w <= 32) r = "uint32_t";
        else if (w <= 64) r = "uint64_t";
        else r = "unsigned __int128";
    } else if (T->isFloatTy()) r = "float";
    else if (T->isDoubleTy()) r = "double";
    else if (T->isX86_FP80Ty()) r = "long double";
    else if (T->isPointerTy()) {
        Type *E = T->getPointerElementType();
        if (E->isFunctionTy()) {
            std::string n = "fp_" + std::to_string(tyCounter++);
            tyName[T] = n;
            tyDefs.push_back("typedef " + declare(T, n) + ";");
            return n;
        }
        if (auto *ST = dyn_cast<StructType>(E)) {
            if (!tyName.count(ST)) {
                // forward-declare to break cycles
                std::string n = "struct S" + std::to_string(tyCounter++);
                if (tyInProgress.count(ST) || true) {
                    if (!tyName.count(ST)) {
                        tyName[ST] = n;
                        tyDefs.push_back(n + ";");
                        // schedule definition
                        tyInProgress.insert(ST);
                    }
                }
            }
            r = tyName[ST] + " *";
            tyName[T] = r;
            return r;
        }
        r = cty(E) + " *";
    } else if (auto *ST = dyn_cast<StructType>(T)) {
        if (ST->isLiteral() && ST->getNumElements() == 2 && ST->getElementType(0)->isPointerTy() && ST->getElementType(0)->getPointerElementType()->isIntegerTy(8) && ST->getElementType(1)->isIntegerTy(32)) { tyName[T] = "struct LPAD"; defined.insert(T); return "struct LPAD"; }
        std::string n = "struct S" + std::to_string(tyCounter++);
        tyName[T] = n;
        tyDefs.push_back(n + ";");
        tyInProgress.insert(ST);
        return n;
    } else if (auto *AT = dyn_cast<ArrayType>(T)) {
        std::string n = "struct A" + std::to_string(tyCounter++);
        tyName[T] = n;
        std::string el = cty(AT->getElementType());
        // element must be complete
        tyDefs.push_back("@ARR " + n + " " + std::to_string((unsigned long)AT));
        return n;
    } else {
        errs() << "unsupported type: " << *T << "\n";
        exit(2);
    }
    tyName[T] = r;
    return r;
}

// emit complete definitions in dependency order
static void defineType(Type *T, raw_ostream &O) {
    if (defined.count(T)) return;
    if (auto *ST = dyn_cast<StructType>(T)) {
        defined.insert(T);
        if (ST->isOpaque()) return;
        for (Type *E : ST->elements()) defineType(E, O);
        O << cty(ST) << " {";
        unsigned i = 0;
        for (Type *E : ST->elements()) O << " " << declare(E, "f" + std::to_string(i++)) << ";";
        if (ST->getNumElements() == 0) O << " char dummy_empty[0];";
        O << " }" << (ST->isPacked() ? " __attribute__((packed))" : "") << ";\n";
    } else if (auto *AT = dyn_cast<ArrayType>(T)) {
        defined.insert(T);
        defineType(AT->getElementType(), O);
        O << cty(AT) << " { " << declare(AT->getElementType(), "a[" + std::to_string(AT->getNumElements()) + "]") << "; };\n";
    } else if (T->isPointerTy()) {
        cty(T);
    }
}

static std::string mangle(StringRef n) {
    std::string s;
    for (char c : n) s += (isalnum((unsigned char)c) || c == '_') ? c : '_';
    return s;
}

struct FnCtx {
    Function *F;
    std::map<const Value *, std::string> names;
    int counter = 0;
};

static std::string gname(const GlobalValue *G) {
    std::string n = mangle(G->getName());
    if (isa<Function>(G)) {
        if (n == "harness" || n == "main") return n;
        return "F_" + n;
    }
    return "G_" + n;
}

static std::string constExpr(const Constant *C);

static std::string intLit(const APInt &v, unsigned w) {
    std::string s = std::to_string(v.getZExtValue());
    if (w > 32) return s + "ULL";
    return s + "U";
}

static std::string gepExpr(std::string base, Type *srcElTy, ArrayRef<std::string> idx, ArrayRef<const Value *> idxV, Type *&outTy) {
    // base is expression of type srcElTy*
    std::string e = "(" + base + ")";
    Type *cur = srcElTy;
    for (unsigned i = 0; i < idx.size(); ++i) {
        if (i == 0) {
            e = e + "[(int64_t)" + idx[0] + "]";
        } else if (auto *ST = dyn_cast<StructType>(cur)) {
            unsigned k = cast<ConstantInt>(idxV[i])->getZExtValue();
            e += ".f" + std::to_string(k);
            cur = ST->getElementType(k);
        } else if (auto *AT = dyn_cast<ArrayType>(cur)) {
            e += ".a[(int64_t)" + idx[i] + "]";
            cur = AT->getElementType();
        } else {
            errs() << "bad gep\n";
            exit(2);
        }
    }
    outTy = cur;
    return "(&" + e + ")";
}

static std::string sext(const std::string &e, unsigned w) {
    const char *t = w <= 8 ? "int8_t" : w <= 16 ? "int16_t" : w <= 32 ? "int32_t" : "int64_t";
    return std::string("((") + t + ")" + e + ")";
}

static std::string constExpr(const Constant *C) {
    if (auto *CI = dyn_cast<ConstantInt>(C)) {
        unsigned w = CI->getBitWidth();
        if (w == 1) return CI->isZero() ? "0" : "1";
        return "((" + cty(CI->getType()) + ")" + intLit(CI->getValue(), w) + ")";
    }
    if (auto *CF = dyn_cast<ConstantFP>(C)) {
        if (CF->getType()->isDoubleTy() || CF->getType()->isFloatTy()) {
            double d = CF->getType()->isDoubleTy() ? CF->getValueAPF().convertToDouble() : CF->getValueAPF().convertToFloat();
            if (d != d) return "(0.0/0.0)";
            if (d == 1.0 / 0.0) return "(1.0/0.0)";
            if (d == -1.0 / 0.0) return "(-1.0/0.0)";
            char buf[64];
            snprintf(buf, sizeof buf, "%a", d);
            return std::string("((") + cty(CF->getType()) + ")" + buf + ")";
        }
        bool lost;
        APFloat v = CF->getValueAPF();
        v.convert(APFloat::IEEEdouble(), APFloat::rmNearestTiesToEven, &lost);
        char buf[64];
        snprintf(buf, sizeof buf, "%a", v.convertToDouble());
        return std::string("((long double)") + buf + ")";
    }
    if (isa<ConstantPointerNull>(C)) return "((" + cty(C->getType()) + ")0)";
    if (isa<UndefValue>(C)) {
        if (C->getType()->isIntegerTy() || C->getType()->isPointerTy() || C->getType()->isFloatingPointTy()) return "((" + cty(C->getType()) + ")0) /*undef*/";
        return "@UNDEFAGG";
    }
    if (auto *G = dyn_cast<GlobalValue>(C)) return "(&" + gname(G) + ")";
    if (auto *CE = dyn_cast<ConstantExpr>(C)) {
        switch (CE->getOpcode()) {
        case Instruction::BitCast:
        case Instruction::IntToPtr:
        case Instruction::PtrToInt:
            return "((" + cty(CE->getType()) + ")" + constExpr(CE->getOperand(0)) + ")";
        case Instruction::GetElementPtr: {
            auto *GO = cast<GEPOperator>(CE);
            std::vector<std::string> idx;
            std::vector<const Value *> idxV;
            for (auto it = GO->idx_begin(); it != GO->idx_end(); ++it) {
                idx.push_back(constExpr(cast<Constant>(*it)));
                idxV.push_back(*it);
            }
            Type *out;
            return gepExpr(constExpr(CE->getOperand(0)), GO->getSourceElementType(), idx, idxV, out);
        }
        default:
            errs() << "unsupported constexpr " << *CE << "\n";
            exit(2);
        }
    }
    errs() << "unsupported constant " << *C << "\n";
    exit(2);
}

static std::string constInit(const Constant *C) {
    if (isa<ConstantAggregateZero>(C)) return "{0}";
    if (auto *CS = dyn_cast<ConstantStruct>(C)) {
        std::string s = "{";
        for (unsigned i = 0; i < CS->getNumOperands(); ++i) s += (i ? ", " : "") + constInit(CS->getOperand(i));
        return s + "}";
    }
    if (auto *CA = dyn_cast<ConstantArray>(C)) {
        std::string s = "{{";
        for (unsigned i = 0; i < CA->getNumOperands(); ++i) s += (i ? ", " : "") + constInit(CA->getOperand(i));
        return s + "}}";
    }
    if (auto *CD = dyn_cast<ConstantDataSequential>(C)) {
        std::string s = "{{";
        for (unsigned i = 0; i < CD->getNumElements(); ++i) s += (i ? ", " : "") + constInit(CD->getElementAsConstant(i));
        return s + "}}";
    }
    if (isa<UndefValue>(C) && !C->getType()->isSingleValueType()) return "{0}";
    return constExpr(C);
}


struct Step { bool isField; unsigned k; std::string idx; uint64_t stride = 0; uint64_t len = 0; };
struct Path { bool ok = false; bool isNull = false; std::string root; Type *rootTy = nullptr; std::vector<Step> steps; Type *ty = nullptr; };
static std::map<const Value *, std::vector<std::string>> idxPhiVars; // pointer phi -> C int vars for its Index steps
static std::map<const Value *, Path> idxPhiPath;
static std::string val(FnCtx &X, const Value *V);
static std::string rawName(FnCtx &X, const Value *V) {
    auto it = X.names.find(V);
    if (it != X.names.end()) return it->second;
    std::string n = "v" + std::to_string(X.counter++);
    X.names[V] = n;
    return n;
}

static std::string pathStr(const Path &P) {
    std::string e = P.root;
    for (auto &s : P.steps) e += s.isField ? ".f" + std::to_string(s.k) : ".a[(int64_t)(" + s.idx + ")]";
    return e;
}
static std::string skeleton(const Path &P) {
    std::string e = P.root;
    for (auto &s : P.steps) e += s.isField ? ".f" + std::to_string(s.k) : "[]";
    return e;
}
static Path resolve(FnCtx &X, const Value *V, int depth = 0);
// extend a resolved path by a GEP / a pointer cast; sets P.ok = false when the result is not a typed sub-object
static void applyGEP(FnCtx &X, Path &P, const GEPOperator *GO) {
    if (P.ty != GO->getSourceElementType()) { P.ok = false; return; }
    unsigned n = 0;
    for (auto it = GO->idx_begin(); it != GO->idx_end(); ++it, ++n) {
        const Value *I = *it;
        std::string is;
        if (auto *C = dyn_cast<ConstantInt>(I)) is = std::to_string(C->getSExtValue());
        else is = sext(val(X, I), I->getType()->getIntegerBitWidth());
        if (n == 0) {
            if (auto *C = dyn_cast<ConstantInt>(I)) if (C->isZero()) continue;
            // pointer arithmetic on an array element pointer
            if (P.steps.empty() || P.steps.back().isField) { P.ok = false; return; }
            size_t ns = P.steps.size();
            if (ns >= 2 && !P.steps[ns - 2].isField && P.steps.back().len > 0) {
                // pointer walk over an array of arrays (contiguous rows): carry into the enclosing index so that no inner index leaves its row
                std::string M = std::to_string(P.steps.back().len) + "LL";
                std::string lin = "((int64_t)(" + P.steps[ns - 2].idx + ") * " + M + " + (int64_t)(" + P.steps.back().idx + ") + (int64_t)(" + is + "))";
                P.steps[ns - 2].idx = "(" + lin + " / " + M + ")";
                P.steps.back().idx = "(" + lin + " % " + M + ")";
            } else P.steps.back().idx = "(" + P.steps.back().idx + ") + (" + is + ")";
            continue;
        }
        if (auto *ST = dyn_cast<StructType>(P.ty)) { unsigned k = cast<ConstantInt>(I)->getZExtValue(); P.steps.push_back({true, k, ""}); P.ty = ST->getElementType(k); }
        else if (auto *AT = dyn_cast<ArrayType>(P.ty)) { Step st{false, 0, is}; st.stride = DL->getTypeAllocSize(AT->getElementType()); st.len = AT->getNumElements(); P.steps.push_back(st); P.ty = AT->getElementType(); }
        else { P.ok = false; return; }
    }
}
// clang gives a class with reusable tail padding a second struct type "T.base" (no tail padding) for its use as a base-class
// sub-object; a pointer to it is cast to T* to call base-class members. Both have the same leading fields.
static bool basePrefixOf(Type *a, Type *b) {
    auto *A = dyn_cast<StructType>(a), *B = dyn_cast<StructType>(b);
    if (!A || !B || A->isOpaque() || B->isOpaque() || !A->hasName() || !B->hasName()) return false;
    if (A->getName() != (B->getName() + ".base").str() && B->getName() != (A->getName() + ".base").str()) return false;
    unsigned n = std::min(A->getNumElements(), B->getNumElements());
    for (unsigned k = 0; k < n; ++k) { Type *x = A->getElementType(k), *y = B->getElementType(k); if (x != y && !(k + 1 == n && x->isArrayTy() != y->isArrayTy())) { if (x != y) return false; } }
    return true;
}
static void applyCast(Path &P, Type *want) {
    // descend through first members until the type matches
    for (int g = 0; g < 16 && P.ty != want; ++g) {
        if (basePrefixOf(P.ty, want)) { P.ty = want; break; }   // same object seen as its base-sub-object twin
        if (auto *ST = dyn_cast<StructType>(P.ty)) { if (ST->getNumElements() == 0) break; P.steps.push_back({true, 0, ""}); P.ty = ST->getElementType(0); }
        else if (auto *AT = dyn_cast<ArrayType>(P.ty)) { P.steps.push_back({false, 0, "0"}); P.ty = AT->getElementType(); }
        else break;
    }
    if (P.ty != want) P.ok = false;
}
static Path resolveNoCache(FnCtx &X, const Value *V, int depth) {
    Path P;
    if (depth > 64) return P;
    V = V;
    if (auto *AI = dyn_cast<AllocaInst>(V)) {
        if (AI->isArrayAllocation()) return P;
        P.ok = true; P.root = rawName(X, V) + "_mem"; P.ty = P.rootTy = AI->getAllocatedType(); return P;
    }
    if (auto *GV = dyn_cast<GlobalVariable>(V)) { P.ok = true; P.root = gname(GV); P.ty = P.rootTy = GV->getValueType(); return P; }
    if (auto *GO = dyn_cast<GEPOperator>(V)) {
        P = resolve(X, GO->getPointerOperand(), depth + 1);
        if (!P.ok) return P;
        applyGEP(X, P, GO);
        return P;
    }
    if (auto *BC = dyn_cast<BitCastOperator>(V)) {
        P = resolve(X, BC->getOperand(0), depth + 1);
        if (!P.ok) return P;
        applyCast(P, BC->getType()->getPointerElementType());
        return P;
    }
    auto ip = idxPhiPath.find(V);
    if (ip != idxPhiPath.end()) return ip->second;
    return P;
}
static Path resolve(FnCtx &X, const Value *V, int depth) { return resolveNoCache(X, V, depth); }
// the widest resolvable view of a pointer used as raw bytes: strip casts down to the typed object
static Path resolveBytes(FnCtx &X, const Value *V) {
    const Value *S = V;
    while (auto *BC = dyn_cast<BitCastOperator>(S)) S = BC->getOperand(0);
    return resolve(X, S);
}
static std::string ptrVal(FnCtx &X, const Value *V) {
    if (V->getType()->isPointerTy() && !isa<Function>(V)) {
        Path P = resolve(X, V);
        if (P.ok) return "(&" + pathStr(P) + ")";
    }
    return val(X, V);
}

// ---- pointers that may point into one of several objects / sub-object shapes, or be null (phi / select of differently shaped
// pointers, e.g. a value-initialised iterator merged with a real one). They are represented by a tag plus the index variables of
// each alternative and every access through them is emitted as a case split over direct lvalues - never through a C pointer
// (CBMC's handling of raw pointers with symbolic offsets into nested aggregates was found to be imprecise, see DESIGN.md 10.1).
struct Alt { int tag; Path p; };
struct MP { bool ok = false; std::string tagVar; std::vector<Alt> alts; bool mayNull = false; };
static std::map<const Value *, MP> multiPtr;
static std::set<const Value *> multiBad;
static MP resolveM(FnCtx &X, const Value *V, int depth = 0) {
    MP M;
    if (depth > 64 || !V->getType()->isPointerTy()) return M;
    if (isa<ConstantPointerNull>(V)) { M.ok = true; M.mayNull = true; return M; }
    Path P = resolve(X, V);
    if (P.ok) { M.ok = true; M.alts.push_back({1, P}); return M; }
    auto it = multiPtr.find(V);
    if (it != multiPtr.end()) return it->second;
    if (auto *GO = dyn_cast<GEPOperator>(V)) {
        MP B = resolveM(X, GO->getPointerOperand(), depth + 1);
        if (!B.ok || B.alts.empty()) return M;
        for (auto &a : B.alts) { applyGEP(X, a.p, GO); if (!a.p.ok) return M; }
        return B;
    }
    if (auto *BC = dyn_cast<BitCastOperator>(V)) {
        if (!BC->getType()->getPointerElementType()->isFunctionTy()) {
            MP B = resolveM(X, BC->getOperand(0), depth + 1);
            if (!B.ok || B.alts.empty()) return M;
            for (auto &a : B.alts) { applyCast(a.p, BC->getType()->getPointerElementType()); if (!a.p.ok) return M; }
            return B;
        }
    }
    return M;
}
static bool isMulti(const MP &M) { return M.ok && !M.tagVar.empty(); }
static std::string tagIs(const MP &M, int tag) { return M.tagVar.empty() ? "1" : "(" + M.tagVar + " == " + std::to_string(tag) + ")"; }
static std::string nullCond(const MP &M) { if (M.tagVar.empty()) return M.alts.empty() ? "1" : "0"; return "(" + M.tagVar + " == 0)"; }
// value of a (possibly multi) pointer as a C rvalue (only needed where a raw pointer is unavoidable)
static std::string multiAddr(const MP &M, Type *T) {
    std::string e = "((" + cty(T) + ")0)";
    for (auto it = M.alts.rbegin(); it != M.alts.rend(); ++it) e = "(" + tagIs(M, it->tag) + " ? (" + cty(T) + ")&" + pathStr(it->p) + " : " + e + ")";
    return e;
}
// rvalue read through a multi pointer
static std::string multiRead(const MP &M) {
    std::string e = pathStr(M.alts.back().p);
    for (size_t k = M.alts.size() - 1; k-- > 0;) e = "(" + tagIs(M, M.alts[k].tag) + " ? " + pathStr(M.alts[k].p) + " : " + e + ")";
    return e;
}
// expression "pointers A and B are equal"
static std::string multiEq(const MP &A, const MP &B) {
    std::string e = "(" + nullCond(A) + " && " + nullCond(B) + ")";
    for (auto &a : A.alts) for (auto &b : B.alts) if (skeleton(a.p) == skeleton(b.p)) {
        std::string c = tagIs(A, a.tag) + " && " + tagIs(B, b.tag);
        for (size_t q = 0; q < a.p.steps.size(); ++q) if (!a.p.steps[q].isField) c += " && (int64_t)(" + a.p.steps[q].idx + ") == (int64_t)(" + b.p.steps[q].idx + ")";
        e += " || (" + c + ")";
    }
    return "(" + e + ")";
}
// (dst, src) moves that make the multi pointer D equal to the value `in`
static void multiMoves(FnCtx &X, const MP &D, const Value *in, std::vector<std::array<std::string, 3>> &moves) {
    MP S = resolveM(X, in);
    std::string tagExpr = "0";
    for (auto &d : D.alts) for (auto &sa : S.alts) if (skeleton(d.p) == skeleton(sa.p)) {
        tagExpr = "(" + tagIs(S, sa.tag) + " ? " + std::to_string(d.tag) + " : " + tagExpr + ")";
        for (size_t q = 0; q < d.p.steps.size(); ++q) if (!d.p.steps[q].isField) moves.push_back({"int64_t", d.p.steps[q].idx, "(int64_t)(" + sa.p.steps[q].idx + ")"});
    }
    moves.push_back({"int", D.tagVar, tagExpr});
}
static int rawDerefs = 0; // loads/stores that could not be resolved to a direct lvalue path (emitted through a C pointer)
static std::string lval(FnCtx &X, const Value *Ptr) {
    Path P = resolve(X, Ptr);
    if (P.ok) return pathStr(P);
    ++rawDerefs;
    return "(*" + val(X, Ptr) + ")";
}

static std::string val(FnCtx &X, const Value *V) {
    if (isa<UndefValue>(V)) {
        Type *T = V->getType();
        if (T->isIntegerTy()) return "((" + cty(T) + ")__undef_u64())";
        if (T->isFloatingPointTy()) return "((" + cty(T) + ")__undef_f64())";
    }
    if (auto *C = dyn_cast<Constant>(V)) return constExpr(C);
    if (V->getType()->isPointerTy() && (isa<GEPOperator>(V) || isa<BitCastOperator>(V) || idxPhiPath.count(V))) { Path P = resolve(X, V); if (P.ok) return "((" + cty(V->getType()) + ")&" + pathStr(P) + ")"; }
    if (V->getType()->isPointerTy() && !isa<Function>(V) && !multiPtr.empty()) { MP M = resolveM(X, V); if (isMulti(M)) return multiAddr(M, V->getType()); }
    return rawName(X, V);
}


static std::set<std::string> frozenRoots; static bool monitorOn = false;
// mutable namespace-scope state that a const operation must neither write nor read (the model's output sinks are exempt:
// "file writers to distinct files" may write their file)
static bool monitoredGlobal(const Value *V) {
    auto *G = dyn_cast<GlobalVariable>(V->stripInBoundsOffsets());
    if (!G || G->isConstant()) return false;
    StringRef n = G->getName();
    if (n.contains("verif_the_file") || n.contains("4cout") || n.contains("4cerr") || n.startswith("__") || n.contains("harness_scratch") || n.contains("verif_fslot")) return false; // (verif_fslot: where the std::function MODEL keeps a stateful target; the real one keeps it inside the object)
    return true;
}
static std::string monHits(const std::string &p) {
    std::string e = "0";
    for (size_t k = 0; k < frozenRoots.size(); ++k) e += " || __CPROVER_same_object((void*)(" + p + "), __frozen_obj" + std::to_string(k) + ")";
    return "(" + e + ")";
}
static std::map<const BasicBlock *, std::pair<int, const Loop *>> loopHeader; // header -> (id, loop)
static std::vector<std::pair<std::string, int>> boundSpec; static int boundDefault = 8;
struct LoopMeta { int id; std::string func, linkage; unsigned line; int bound; };
static std::vector<LoopMeta> loopMetas;
// Attribute a loop to the source function whose text contains the loop statement: the deepest inlined frame that
// contains every instruction of the loop; line = smallest line the loop touches in that frame.
static std::map<const Loop *, std::string> loopOwner;
static int loopBound(const Loop *L, std::string &who) {
    who = "?"; std::string linkage; unsigned line = 0;
    std::vector<const DILocation *> common; bool have = false; // chain of inlined-at call sites, outermost first
    std::vector<std::vector<const DILocation *>> chains; std::vector<const DILocation *> locs;
    for (BasicBlock *B : L->blocks()) for (Instruction &I : *B) {
        const DILocation *D = I.getDebugLoc().get(); if (!D || D->getLine() == 0 || isa<PHINode>(I)) continue; // line 0 = merged location: says nothing about the owner
        std::vector<const DILocation *> ch; for (const DILocation *P = D->getInlinedAt(); P; P = P->getInlinedAt()) ch.push_back(P);
        std::reverse(ch.begin(), ch.end());
        chains.push_back(ch); locs.push_back(D);
        if (!have) { common = ch; have = true; }
        else { size_t k = 0; while (k < common.size() && k < ch.size() && common[k] == ch[k]) ++k; common.resize(k); }
    }
    if (have) {
        size_t d = common.size(); unsigned best = 0; const DISubprogram *SP = nullptr;
        for (size_t q = 0; q < chains.size(); ++q) {
            const DILocation *inFrame = chains[q].size() == d ? locs[q] : chains[q][d]; // the location inside the owning frame
            if (!SP) SP = inFrame->getScope()->getSubprogram();
            unsigned ln = inFrame->getLine(); if (ln && (!best || ln < best)) best = ln;
        }
        line = best; if (SP) { who = SP->getName().str(); linkage = SP->getLinkageName().str(); }
    }
    // nesting depth among the loops of the same function instance: name#0 is the outermost loop of that function, name#1 the next...
    { std::string owner = who + "/" + std::to_string((uintptr_t)(common.empty() ? nullptr : common.back())); loopOwner[L] = owner;
      int depth = 0; for (const Loop *P = L->getParentLoop(); P; P = P->getParentLoop()) { auto it = loopOwner.find(P); if (it != loopOwner.end() && it->second == owner) ++depth; }
      who += "#" + std::to_string(depth); }
    std::string key = who + ":" + std::to_string(line) + "@" + linkage;
    int bd = boundDefault;
    for (auto &kv : boundSpec) { // pattern: substrings joined by '&' must all occur in "name#depth:line@linkage"
        bool all = true; std::stringstream ps(kv.first); std::string part;
        while (std::getline(ps, part, '&')) if (key.find(part) == std::string::npos) { all = false; break; }
        if (all) { bd = kv.second; break; }
    }
    who = who + ":" + std::to_string(line);
    return bd;
}
static bool mayThrow(const CallBase *CB) { return !CB->doesNotThrow(); }

static std::string dummyRet(Function *F) {
    Type *R = F->getReturnType();
    if (F->getName() == "harness") return "{ __CPROVER_assert(0, \"an exception escapes the harness uncaught\"); return; }";
    if (R->isVoidTy()) return "return;";
    if (R->isSingleValueType()) return "return (" + cty(R) + ")0;";
    return "{ " + cty(R) + " z_; return z_; }";
}

static void emitPhiMoves(FnCtx &X, BasicBlock *from, BasicBlock *to, raw_ostream &O) {
    std::vector<std::array<std::string, 3>> moves; // (C type, destination, source expression); all sources are read before any destination is written
    for (PHINode &P : to->phis()) {
        Value *in = P.getIncomingValueForBlock(from);
        if (isa<UndefValue>(in)) continue;
        if (idxPhiPath.count(&P)) {
            if (in == &P) continue;
            Path PI = resolve(X, in); unsigned q = 0;
            for (auto &st : PI.steps) if (!st.isField) moves.push_back({"int64_t", idxPhiVars[&P][q++], st.idx});
            continue;
        }
        auto mp = multiPtr.find(&P);
        if (mp != multiPtr.end()) { if (in != &P) multiMoves(X, mp->second, in, moves); continue; }
        moves.push_back({"", val(X, &P), val(X, in)});
        moves.back()[0] = declare(P.getType(), "@");
    }
    if (moves.empty()) return;
    if (moves.size() == 1) { O << "    " << moves[0][1] << " = " << moves[0][2] << ";\n"; return; }
    O << "    {";
    for (size_t k = 0; k < moves.size(); ++k) {
        std::string t = "t" + std::to_string(k), d = moves[k][0];
        size_t at = d.find('@');
        if (at != std::string::npos) d.replace(at, 1, t); else d += " " + t;
        O << " " << d << " = " << moves[k][2] << ";";
    }
    for (size_t k = 0; k < moves.size(); ++k) O << " " << moves[k][1] << " = t" << k << ";";
    O << " }\n";
}

static std::string blockLabel(FnCtx &X, BasicBlock *B) { return "L" + rawName(X, B); }

static void gotoBlock(FnCtx &X, BasicBlock *from, BasicBlock *to, raw_ostream &O) {
    emitPhiMoves(X, from, to, O);
    auto it = loopHeader.find(to);
    if (it != loopHeader.end() && it->second.second->contains(from)) { O << "    goto Llatch" << it->second.first << ";\n"; return; } // back edge: via the single latch placed after the loop body
    if (it != loopHeader.end()) O << "    lc" << it->second.first << " = 0;\n";
    O << "    goto " << blockLabel(X, to) << ";\n";
}

// Block layout for CBMC: every loop is contiguous, blocks inside a region are in topological order (back edges ignored),
// and each loop ends with one latch "Llatch: goto header". CBMC's symbolic execution walks instructions in program order and
// parks the states of forward gotos at their targets, so every forward target must lie before the next backward jump.
static void layoutRegion(Loop *L, LoopInfo &LI, Function &F, std::vector<std::pair<BasicBlock *, Loop *>> &out) {
    // nodes: blocks directly in L (or in no loop when L is null) and the immediate sub-loops of L
    auto nodeOf = [&](BasicBlock *B) -> std::pair<BasicBlock *, Loop *> {
        Loop *BL = LI.getLoopFor(B);
        if (BL == L) return {B, nullptr};
        while (BL && BL->getParentLoop() != L) BL = BL->getParentLoop();
        return {nullptr, BL};
    };
    auto inRegion = [&](BasicBlock *B) { return L ? L->contains(B) : true; };
    typedef std::pair<BasicBlock *, Loop *> Node;
    std::set<Node> visited; std::vector<Node> post;
    std::function<void(Node)> dfs = [&](Node nd) {
        if (!visited.insert(nd).second) return;
        std::vector<BasicBlock *> members;
        if (nd.first) members.push_back(nd.first); else for (BasicBlock *B : nd.second->blocks()) members.push_back(B);
        std::vector<Node> succs;
        for (BasicBlock *B : members) { Instruction *T = B->getTerminator(); for (unsigned k = 0; k < T->getNumSuccessors(); ++k) { BasicBlock *S = T->getSuccessor(k); if (!inRegion(S)) continue; if (L && S == L->getHeader()) continue; Node sn = nodeOf(S); if (sn == nd) continue; succs.push_back(sn); } }
        // visit in reverse so that the first successor ends up first in reverse post-order
        for (auto it = succs.rbegin(); it != succs.rend(); ++it) dfs(*it);
        post.push_back(nd);
    };
    BasicBlock *entry = L ? L->getHeader() : &F.getEntryBlock();
    dfs(nodeOf(entry));
    for (auto it = post.rbegin(); it != post.rend(); ++it) {
        if (it->first) out.push_back({it->first, nullptr});
        else { layoutRegion(it->second, LI, F, out); out.push_back({nullptr, it->second}); }
    }
}

static int tiId(const Value *V) {
    V = V->stripPointerCasts();
    if (isa<ConstantPointerNull>(V)) return 0; // catch-all
    auto *G = cast<GlobalValue>(V);
    auto it = typeInfoId.find(G);
    if (it == typeInfoId.end()) { int id = typeInfoId.size() + 1; typeInfoId[G] = id; return id; }
    return it->second;
}

static void emitFunction(Function &F, raw_ostream &O) {
    FnCtx X;
    X.F = &F;
    // signature
    std::string sig = cty(F.getReturnType()) + " " + gname(&F) + "(";
    unsigned ai = 0;
    for (Argument &A : F.args()) { sig += (ai++ ? ", " : "") + declare(A.getType(), val(X, &A)); }
    if (F.arg_size() == 0) sig += "void";
    sig += ")";
    O << sig << " {\n";
    for (Instruction &I : instructions(F)) if (auto *CB = dyn_cast<CallBase>(&I)) if (CB->getCalledFunction() && CB->getCalledFunction()->getName() == "__VERIFIER_freeze") { monitorOn = true; const Value *P = CB->getArgOperand(0); while (auto *BC = dyn_cast<BitCastOperator>(P)) P = BC->getOperand(0); Path FP = resolve(X, P); if (FP.ok) frozenRoots.insert(FP.root); else { errs() << "freeze target not resolvable\n"; exit(2); } }
    DominatorTree DT(F); LoopInfo LI(DT); loopHeader.clear();
    static std::map<const Loop *, std::pair<int, std::string>> loopBd; loopBd.clear(); loopOwner.clear();
    { int id = 0; for (Loop *L : LI.getLoopsInPreorder()) { loopHeader[L->getHeader()] = {id, L}; std::string who; int bd = loopBound(L, who); loopBd[L] = {bd, who}; O << "    int lc" << id << " = 0;\n"; ++id; } }
    // pointer phis whose incoming values all resolve to one skeleton become index phis
    for (int round = 0; round < 4; ++round)
    for (Instruction &I : instructions(F)) {
        auto *PN = dyn_cast<PHINode>(&I);
        if (!PN || !PN->getType()->isPointerTy() || idxPhiPath.count(PN)) continue;
        Path first; bool good = true; std::string sk;
        for (unsigned q = 0; q < PN->getNumIncomingValues() && sk.empty(); ++q) {
            Path P = resolve(X, PN->getIncomingValue(q));
            if (P.ok) { sk = skeleton(P); first = P; }
        }
        if (sk.empty()) continue;
        Path NP = first; std::vector<std::string> vars; int k = 0;
        std::string base = rawName(X, PN);
        for (auto &st : NP.steps) if (!st.isField) { std::string v = base + "_i" + std::to_string(k++); vars.push_back(v); st.idx = v; }
        idxPhiPath[PN] = NP; // optimistic
        for (unsigned q = 0; q < PN->getNumIncomingValues() && good; ++q) {
            const Value *in = PN->getIncomingValue(q);
            if (in == PN || isa<UndefValue>(in)) continue;
            Path P = resolve(X, in);
            if (!P.ok || skeleton(P) != sk) good = false;
        }
        if (!good) { idxPhiPath.erase(PN); continue; }
        idxPhiVars[PN] = vars; idxPhiPath[PN] = NP;
    }
    for (auto &kv : idxPhiVars) if (cast<Instruction>(kv.first)->getFunction() == &F) for (auto &v : kv.second) O << "    int64_t " << v << ";\n";
    // pointer phis / selects over differently shaped (or null) pointers become tagged multi pointers (optimistic, then validated)
    {
        auto candidate = [&](Instruction &I) { return (isa<PHINode>(I) || isa<SelectInst>(I)) && I.getType()->isPointerTy() && !I.getType()->getPointerElementType()->isFunctionTy() && !idxPhiPath.count(&I) && !multiBad.count(&I); };
        auto incoming = [&](Instruction &I) { std::vector<const Value *> v; if (auto *PN = dyn_cast<PHINode>(&I)) { for (unsigned q = 0; q < PN->getNumIncomingValues(); ++q) v.push_back(PN->getIncomingValue(q)); } else { v.push_back(cast<SelectInst>(I).getTrueValue()); v.push_back(cast<SelectInst>(I).getFalseValue()); } return v; };
        for (int round = 0; round < 12; ++round) {
            bool changed = false;
            for (Instruction &I : instructions(F)) if (candidate(I) && !multiPtr.count(&I)) { MP M; M.ok = true; M.tagVar = rawName(X, &I) + "_tag"; multiPtr[&I] = M; changed = true; }
            for (Instruction &I : instructions(F)) if (candidate(I)) {
                MP &D = multiPtr[&I]; bool good = true;
                for (const Value *in : incoming(I)) {
                    if (in == &I || isa<UndefValue>(in)) continue;
                    MP S = resolveM(X, in);
                    if (!S.ok) { if (getenv("LL2C_DEBUG_MULTI")) errs() << "multi: " << I << "\n   unresolved incoming: " << *in << "\n"; good = false; break; }
                    if (S.mayNull && !D.mayNull) { D.mayNull = true; changed = true; }
                    for (auto &sa : S.alts) {
                        bool have = false; for (auto &d : D.alts) if (skeleton(d.p) == skeleton(sa.p) && d.p.ty == sa.p.ty) have = true;
                        if (have) continue;
                        Alt na; na.tag = (int)D.alts.size() + 1; na.p = sa.p; int k = 0;
                        for (auto &st : na.p.steps) if (!st.isField) st.idx = rawName(X, &I) + "_a" + std::to_string(na.tag) + "_i" + std::to_string(k++);
                        D.alts.push_back(na); changed = true;
                    }
                }
                if (!good) { multiPtr.erase(&I); multiBad.insert(&I); changed = true; }
            }
            if (!changed) break;
        }
        // a multi pointer without any alternative (only null / undef inputs) is not worth the machinery
        for (auto it = multiPtr.begin(); it != multiPtr.end();) { if (it->second.alts.empty()) { multiBad.insert(it->first); it = multiPtr.erase(it); } else ++it; }
        for (auto &kv : multiPtr) if (cast<Instruction>(kv.first)->getFunction() == &F) { O << "    int " << kv.second.tagVar << " = 0;\n"; for (auto &a : kv.second.alts) for (auto &st : a.p.steps) if (!st.isField) O << "    int64_t " << st.idx << " = 0;\n"; }
    }
    // declare all SSA values
    for (Instruction &I : instructions(F)) {
        if (I.getType()->isVoidTy()) continue;
        if (idxPhiPath.count(&I) || multiPtr.count(&I)) continue;
        if ((isa<GetElementPtrInst>(I) || (isa<BitCastInst>(I) && I.getType()->isPointerTy())) && (resolve(X, &I).ok || isMulti(resolveM(X, &I)))) continue;
        if (auto *AI = dyn_cast<AllocaInst>(&I)) {
            std::string n = rawName(X, &I);
            Type *T = AI->getAllocatedType();
            if (AI->isArrayAllocation()) {
                unsigned k = cast<ConstantInt>(AI->getArraySize())->getZExtValue();
                O << "    " << declare(T, n + "_mem[" + std::to_string(k) + "]") << ";\n";
                O << "    " << declare(I.getType(), n) << " = " << n << "_mem;\n";
            } else {
                O << "    " << declare(T, n + "_mem") << ";\n";
                O << "    " << declare(I.getType(), n) << " = &" << n << "_mem;\n";
            }
            continue;
        }
        
        O << "    " << declare(I.getType(), rawName(X, &I)) << ";\n";
    }
    bool first = true;
    std::vector<std::pair<BasicBlock *, Loop *>> order;
    layoutRegion(nullptr, LI, F, order);
    for (auto &item : order) {
        if (!item.first) { O << "  Llatch" << loopHeader[item.second->getHeader()].first << ":;\n    goto " << blockLabel(X, item.second->getHeader()) << ";\n"; continue; }
        BasicBlock &B = *item.first;
        if (!first) O << "  " << blockLabel(X, &B) << ":;\n";
        first = false;
        { auto it = loopHeader.find(&B); if (it != loopHeader.end()) { std::string who = loopBd[it->second.second].second; int bd = loopBd[it->second.second].first; loopMetas.push_back({it->second.first, who, "", 0, bd}); O << "    if (++lc" << it->second.first << " > " << bd << ") { __CPROVER_assert(0, \"unwinding bound " << bd << " of loop in " << who << "\"); __CPROVER_assume(0); goto L__cut; }\n"; } }
        for (Instruction &I : B) {
            std::string r = I.getType()->isVoidTy() ? "" : val(X, &I);
            if (isa<PHINode>(I) || isa<AllocaInst>(I)) continue;
            if (auto *LI = dyn_cast<LoadInst>(&I)) {
                MP LM; if (!resolve(X, LI->getPointerOperand()).ok) LM = resolveM(X, LI->getPointerOperand());
                if (isMulti(LM)) {
                    if (LM.mayNull) O << "    __CPROVER_assert(!" << nullCond(LM) << ", \"UB: read through a null pointer\"); __CPROVER_assume(!" << nullCond(LM) << ");\n";
                    O << "    " << r << " = " << multiRead(LM) << ";\n";
                } else
                O << "    " << r << " = " << lval(X, LI->getPointerOperand()) << ";\n";
            } else if (auto *SI = dyn_cast<StoreInst>(&I)) {
                if (monitorOn) {
                    Path SP = resolve(X, SI->getPointerOperand());
                    MP SM; if (!SP.ok) SM = resolveM(X, SI->getPointerOperand());
                    if (SP.ok) { if (frozenRoots.count(SP.root) || monitoredGlobal(SI->getPointerOperand())) O << "    __CPROVER_assert(!__frozen, \"MON: const operation writes shared state: " << skeleton(SP) << "\");\n"; }
                    else if (isMulti(SM)) { for (auto &a : SM.alts) if (frozenRoots.count(a.p.root)) O << "    __CPROVER_assert(!__frozen || !" << tagIs(SM, a.tag) << ", \"MON: const operation writes shared state: " << skeleton(a.p) << "\");\n"; }
                    else O << "    __CPROVER_assert(!__frozen || !" << monHits(val(X, SI->getPointerOperand())) << ", \"MON: const operation writes shared state through a pointer\");\n";
                }
                { MP WM; if (!resolve(X, SI->getPointerOperand()).ok) WM = resolveM(X, SI->getPointerOperand());
                  if (isMulti(WM)) {
                      if (WM.mayNull) O << "    __CPROVER_assert(!" << nullCond(WM) << ", \"UB: write through a null pointer\"); __CPROVER_assume(!" << nullCond(WM) << ");\n";
                      std::string sv = val(X, SI->getValueOperand());
                      for (size_t k = 0; k < WM.alts.size(); ++k) O << "    " << (k ? "else " : "") << (k + 1 < WM.alts.size() ? "if (" + tagIs(WM, WM.alts[k].tag) + ") " : (k ? "" : "")) << pathStr(WM.alts[k].p) << " = " << sv << ";\n";
                      continue;
                  } }
                O << "    " << lval(X, SI->getPointerOperand()) << " = " << val(X, SI->getValueOperand()) << ";\n";
            } else if (isa<GetElementPtrInst>(I) && (resolve(X, &I).ok || isMulti(resolveM(X, &I)))) {
            } else if (isa<BitCastInst>(I) && I.getType()->isPointerTy() && (resolve(X, &I).ok || isMulti(resolveM(X, &I)))) {
            } else if (auto *GI = dyn_cast<GetElementPtrInst>(&I)) {
                std::vector<std::string> idx;
                std::vector<const Value *> idxV;
                for (auto it = GI->idx_begin(); it != GI->idx_end(); ++it) {
                    unsigned w = (*it)->getType()->getIntegerBitWidth();
                    idx.push_back(sext(val(X, *it), w));
                    idxV.push_back(*it);
                }
                Type *out;
                O << "    " << r << " = " << gepExpr(val(X, GI->getPointerOperand()), GI->getSourceElementType(), idx, idxV, out) << ";\n";
            } else if (auto *CI = dyn_cast<CastInst>(&I)) {
                Value *S = CI->getOperand(0);
                unsigned sw = S->getType()->isIntegerTy() ? S->getType()->getIntegerBitWidth() : 0;
                std::string s = val(X, S);
                switch (CI->getOpcode()) {
                case Instruction::SExt: O << "    " << r << " = (" << cty(I.getType()) << ")" << (sw == 1 ? "(" + s + " ? -1 : 0)" : sext(s, sw)) << ";\n"; break;
                case Instruction::SIToFP: O << "    " << r << " = (" << cty(I.getType()) << ")" << sext(s, sw) << ";\n"; break;
                case Instruction::FPToSI: O << "    " << r << " = (" << cty(I.getType()) << ")(int64_t)" << s << ";\n"; break;
                case Instruction::Trunc:
                    if (I.getType()->isIntegerTy(1)) { O << "    " << r << " = (" << s << " & 1) != 0;\n"; break; }
                    // fallthrough
                default: O << "    " << r << " = (" << cty(I.getType()) << ")" << s << ";\n";
                }
            } else if (auto *BO = dyn_cast<BinaryOperator>(&I)) {
                if (BO->getOpcode() == Instruction::Sub) if (auto *PA = dyn_cast<PtrToIntOperator>(BO->getOperand(0))) if (auto *PB = dyn_cast<PtrToIntOperator>(BO->getOperand(1))) {
                    Path A = resolve(X, PA->getPointerOperand()), Bp = resolve(X, PB->getPointerOperand());
                    if (A.ok && Bp.ok && skeleton(A) == skeleton(Bp)) {
                        std::string e = "0";
                        for (size_t q = 0; q < A.steps.size(); ++q) if (!A.steps[q].isField) e += " + ((int64_t)(" + A.steps[q].idx + ") - (int64_t)(" + Bp.steps[q].idx + ")) * " + std::to_string(A.steps[q].stride) + "LL";
                        O << "    " << r << " = (uint64_t)(" << e << "); /* pointer difference */\n";
                        continue;
                    }
                }
                std::string a = val(X, BO->getOperand(0)), b = val(X, BO->getOperand(1));
                unsigned w = I.getType()->isIntegerTy() ? I.getType()->getIntegerBitWidth() : 0;
                std::string T = cty(I.getType());
                const char *op = 0;
                bool sgn = false;
                switch (BO->getOpcode()) {
                case Instruction::Add: case Instruction::FAdd: op = "+"; break;
                case Instruction::Sub: case Instruction::FSub: op = "-"; break;
                case Instruction::Mul: case Instruction::FMul: op = "*"; break;
                case Instruction::UDiv: case Instruction::FDiv: op = "/"; break;
                case Instruction::URem: op = "%"; break;
                case Instruction::SDiv: op = "/"; sgn = true; break;
                case Instruction::SRem: op = "%"; sgn = true; break;
                case Instruction::And: op = "&"; break;
                case Instruction::Or: op = "|"; break;
                case Instruction::Xor: op = "^"; break;
                case Instruction::Shl: op = "<<"; break;
                case Instruction::LShr: op = ">>"; break;
                case Instruction::AShr: op = ">>"; sgn = true; break;
                default: errs() << "binop " << I << "\n"; exit(2);
                }
                bool nsw = false; if (auto *OBO = dyn_cast<OverflowingBinaryOperator>(BO)) nsw = OBO->hasNoSignedWrap() && w > 1 && w <= 64 && (BO->getOpcode() == Instruction::Add || BO->getOpcode() == Instruction::Sub || BO->getOpcode() == Instruction::Mul);
                if (nsw) O << "    " << r << " = (" << T << ")(" << sext(a, w) << " " << op << " " << sext(b, w) << "); /* nsw: signed arithmetic, overflow is undefined behaviour (checked in safety mode) */\n";
                else if (w == 1) O << "    " << r << " = (" << a << " " << op << " " << b << ") & 1;\n";
                else if (sgn) O << "    " << r << " = (" << T << ")(" << sext(a, w) << " " << op << " " << (BO->getOpcode() == Instruction::AShr ? b : sext(b, w)) << ");\n";
                else O << "    " << r << " = (" << T << ")(" << a << " " << op << " " << b << ");\n";
            } else if (auto *IC = dyn_cast<ICmpInst>(&I)) {
                std::string a = val(X, IC->getOperand(0)), b = val(X, IC->getOperand(1));
                Type *OT = IC->getOperand(0)->getType();
                const char *op;
                bool sgn = IC->isSigned();
                switch (IC->getPredicate()) {
                case CmpInst::ICMP_EQ: op = "=="; break;
                case CmpInst::ICMP_NE: op = "!="; break;
                case CmpInst::ICMP_UGT: case CmpInst::ICMP_SGT: op = ">"; break;
                case CmpInst::ICMP_UGE: case CmpInst::ICMP_SGE: op = ">="; break;
                case CmpInst::ICMP_ULT: case CmpInst::ICMP_SLT: op = "<"; break;
                default: op = "<="; break;
                }
                if (sgn && OT->isIntegerTy()) { unsigned w = OT->getIntegerBitWidth(); a = sext(a, w); b = sext(b, w); }
                if (OT->isPointerTy() && !IC->isEquality()) { a = "(uintptr_t)" + a; b = "(uintptr_t)" + b; }
                if (OT->isPointerTy() && IC->isEquality()) {
                    Path PA = resolve(X, IC->getOperand(0)), PB = resolve(X, IC->getOperand(1));
                    if (PA.ok && PB.ok) {
                        std::string e;
                        if (skeleton(PA) != skeleton(PB)) e = PA.root == PB.root ? "" : "0";
                        else { e = "1"; for (size_t q = 0; q < PA.steps.size(); ++q) if (!PA.steps[q].isField) e += " && (" + PA.steps[q].idx + ") == (" + PB.steps[q].idx + ")"; }
                        if (!e.empty()) { O << "    " << r << " = " << (IC->getPredicate() == CmpInst::ICMP_EQ ? "" : "!") << "(" << e << ");\n"; continue; }
                    }
                    { MP MA = resolveM(X, IC->getOperand(0)), MB = resolveM(X, IC->getOperand(1));
                      if (MA.ok && MB.ok && (isMulti(MA) || isMulti(MB) || MA.alts.empty() || MB.alts.empty())) { O << "    " << r << " = " << (IC->getPredicate() == CmpInst::ICMP_EQ ? "" : "!") << multiEq(MA, MB) << ";\n"; continue; } }
                    a = "(void*)" + a; b = "(void*)" + b;
                }
                O << "    " << r << " = " << a << " " << op << " " << b << ";\n";
            } else if (auto *FC = dyn_cast<FCmpInst>(&I)) {
                std::string a = val(X, FC->getOperand(0)), b = val(X, FC->getOperand(1));
                std::string e;
                std::string un = "(" + a + " != " + a + " || " + b + " != " + b + ")";
                switch (FC->getPredicate()) {
                case CmpInst::FCMP_OEQ: e = a + " == " + b; break;
                case CmpInst::FCMP_OGT: e = a + " > " + b; break;
                case CmpInst::FCMP_OGE: e = a + " >= " + b; break;
                case CmpInst::FCMP_OLT: e = a + " < " + b; break;
                case CmpInst::FCMP_OLE: e = a + " <= " + b; break;
                case CmpInst::FCMP_ONE: e = "!" + un + " && " + a + " != " + b; break;
                case CmpInst::FCMP_UNE: e = a + " != " + b; break;
                case CmpInst::FCMP_UNO: e = un; break;
                case CmpInst::FCMP_ORD: e = "!" + un; break;
                case CmpInst::FCMP_UEQ: e = un + " || " + a + " == " + b; break;
                case CmpInst::FCMP_UGT: e = un + " || " + a + " > " + b; break;
                case CmpInst::FCMP_UGE: e = un + " || " + a + " >= " + b; break;
                case CmpInst::FCMP_ULT: e = un + " || " + a + " < " + b; break;
                case CmpInst::FCMP_ULE: e = un + " || " + a + " <= " + b; break;
                default: errs() << "fcmp\n"; exit(2);
                }
                O << "    " << r << " = " << e << ";\n";
            } else if (isa<SelectInst>(I) && multiPtr.count(&I)) {
                auto *SE = cast<SelectInst>(&I);
                std::vector<std::array<std::string, 3>> mt, mf; multiMoves(X, multiPtr[&I], SE->getTrueValue(), mt); multiMoves(X, multiPtr[&I], SE->getFalseValue(), mf);
                O << "    if (" << val(X, SE->getCondition()) << ") {";
                for (size_t k = 0; k < mt.size(); ++k) O << " " << mt[k][0] << " t" << k << " = " << mt[k][2] << ";";
                for (size_t k = 0; k < mt.size(); ++k) O << " " << mt[k][1] << " = t" << k << ";";
                O << " } else {";
                for (size_t k = 0; k < mf.size(); ++k) O << " " << mf[k][0] << " t" << k << " = " << mf[k][2] << ";";
                for (size_t k = 0; k < mf.size(); ++k) O << " " << mf[k][1] << " = t" << k << ";";
                O << " }\n";
            } else if (auto *SE = dyn_cast<SelectInst>(&I)) {
                O << "    " << r << " = " << val(X, SE->getCondition()) << " ? " << val(X, SE->getTrueValue()) << " : " << val(X, SE->getFalseValue()) << ";\n";
            } else if (auto *EV = dyn_cast<ExtractValueInst>(&I)) {
                Value *A = EV->getAggregateOperand();
                if (isa<LandingPadInst>(A) || A->getType() == nullptr) {}
                std::string e = val(X, A);
                Type *cur = A->getType();
                bool lp = false;
                if (auto *ST = dyn_cast<StructType>(cur)) if (ST->isLiteral() && ST->getNumElements() == 2 && ST->getElementType(0)->isPointerTy() && ST->getElementType(1)->isIntegerTy(32)) lp = true;
                
                for (unsigned k : EV->indices()) {
                    if (auto *ST = dyn_cast<StructType>(cur)) { e += ".f" + std::to_string(k); cur = ST->getElementType(k); }
                    else { e += ".a[" + std::to_string(k) + "]"; cur = cast<ArrayType>(cur)->getElementType(); }
                }
                O << "    " << r << " = " << e << ";\n";
            } else if (auto *IV = dyn_cast<InsertValueInst>(&I)) {
                Value *A = IV->getAggregateOperand();
                Type *cur = A->getType();
                bool lp = false;
                if (auto *ST = dyn_cast<StructType>(cur)) if (ST->isLiteral() && ST->getNumElements() == 2 && ST->getElementType(0)->isPointerTy() && ST->getElementType(1)->isIntegerTy(32)) lp = true;

                if (!isa<UndefValue>(A)) O << "    " << r << " = " << val(X, A) << ";\n";
                std::string e = r;
                for (unsigned k : IV->indices()) {
                    if (auto *ST = dyn_cast<StructType>(cur)) { e += ".f" + std::to_string(k); cur = ST->getElementType(k); }
                    else { e += ".a[" + std::to_string(k) + "]"; cur = cast<ArrayType>(cur)->getElementType(); }
                }
                O << "    " << e << " = " << val(X, IV->getInsertedValueOperand()) << ";\n";
            } else if (auto *LP = dyn_cast<LandingPadInst>(&I)) {
                // selector: first matching clause
                O << "    " << r << ".f0 = __exc_obj; " << r << ".f1 = 0; __exc_pending = 0;\n";
                for (unsigned k = 0; k < LP->getNumClauses(); ++k) {
                    if (!LP->isCatch(k)) { errs() << "filter clause unsupported\n"; exit(2); }
                    int id = tiId(LP->getClause(k));
                    O << "    if (" << r << ".f1 == 0 && __exc_matches(__exc_type, " << id << ")) " << r << ".f1 = " << (id == 0 ? 1 : id) << ";\n";
                }
                if (!LP->isCleanup()) {
                    // no cleanup: if nothing matches, unwinding continues past this frame
                    O << "    if (" << r << ".f1 == 0) { __exc_pending = 1; " << dummyRet(&F) << " }\n";
                }
            } else if (auto *RI = dyn_cast<ResumeInst>(&I)) {
                O << "    __exc_pending = 1; " << dummyRet(&F) << "\n";
            } else if (auto *CB = dyn_cast<CallBase>(&I)) {
                Function *Cal = CB->getCalledFunction();
                auto *II = dyn_cast<InvokeInst>(&I);
                std::string nm = Cal ? Cal->getName().str() : "";
                bool handled = true;
                if (nm.rfind("llvm.lifetime", 0) == 0 || nm.rfind("llvm.experimental.noalias", 0) == 0 || nm.rfind("llvm.dbg", 0) == 0) {
                } else if (nm.rfind("llvm.memcpy", 0) == 0 || nm.rfind("llvm.memmove", 0) == 0) {
                    {
                        Path PD = resolveBytes(X, CB->getArgOperand(0)), PS = resolveBytes(X, CB->getArgOperand(1));
                        auto *LEN = dyn_cast<ConstantInt>(CB->getArgOperand(2));
                        if (PD.ok && PS.ok && LEN) {
                            // widen both to the enclosing object of exactly LEN bytes
                            auto fit = [&](Path &P) { for (int g = 0; g < 16 && DL->getTypeAllocSize(P.ty) > LEN->getZExtValue(); ++g) { if (auto *ST = dyn_cast<StructType>(P.ty)) { P.steps.push_back({true, 0, ""}); P.ty = ST->getElementType(0);} else if (auto *AT = dyn_cast<ArrayType>(P.ty)) { P.steps.push_back({false, 0, "0"}); P.ty = AT->getElementType(); } else break; } };
                            fit(PD); fit(PS);
                            if (PD.ty == PS.ty && DL->getTypeAllocSize(PD.ty) == LEN->getZExtValue()) { if (monitorOn && (frozenRoots.count(PD.root) || monitoredGlobal(CB->getArgOperand(0)))) O << "    __CPROVER_assert(!__frozen, \"MON: const operation writes shared state (memcpy): " << skeleton(PD) << "\");\n"; O << "    " << pathStr(PD) << " = " << pathStr(PS) << "; /* typed memcpy */\n"; if (II) gotoBlock(X, &B, II->getNormalDest(), O); continue; }
                        }
                    }
                    {   // a copy that spans several consecutive fields of two objects of the same struct type: field-wise assignment
                        Path PD = resolveBytes(X, CB->getArgOperand(0)), PS = resolveBytes(X, CB->getArgOperand(1));
                        auto *LEN = dyn_cast<ConstantInt>(CB->getArgOperand(2));
                        if (PD.ok && PS.ok && LEN && !PD.steps.empty() && !PS.steps.empty() && PD.steps.back().isField && PS.steps.back().isField && PD.steps.back().k == PS.steps.back().k) {
                            auto parentTy = [&](const Path &P) -> Type * { Type *T = P.rootTy; for (size_t q = 0; q + 1 < P.steps.size(); ++q) { if (P.steps[q].isField) T = cast<StructType>(T)->getElementType(P.steps[q].k); else T = cast<ArrayType>(T)->getElementType(); } return T; };
                            Type *TD = parentTy(PD), *TS = parentTy(PS);
                            if (TD == TS && isa<StructType>(TD)) {
                                auto *ST = cast<StructType>(TD); const StructLayout *SL = DL->getStructLayout(ST);
                                unsigned k = PD.steps.back().k; uint64_t start = SL->getElementOffset(k), want = start + LEN->getZExtValue(); unsigned m = k; bool exact = false;
                                for (; m < ST->getNumElements(); ++m) { uint64_t endq = (m + 1 < ST->getNumElements()) ? SL->getElementOffset(m + 1) : SL->getSizeInBytes(); uint64_t tight = SL->getElementOffset(m) + DL->getTypeStoreSize(ST->getElementType(m)); if (want == endq || want == tight) { exact = true; break; } if (want < endq) break; }
                                if (exact) {
                                    Path BD = PD, BS = PS; BD.steps.pop_back(); BS.steps.pop_back();
                                    if (monitorOn && frozenRoots.count(PD.root)) O << "    __CPROVER_assert(!__frozen, \"MON: const operation writes shared state (memcpy): " << skeleton(PD) << "\");\n";
                                    for (unsigned q = k; q <= m; ++q) O << "    " << pathStr(BD) << ".f" << q << " = " << pathStr(BS) << ".f" << q << "; /* field-range memcpy */\n";
                                    if (II) gotoBlock(X, &B, II->getNormalDest(), O);
                                    continue;
                                }
                            }
                        }
                    }
                    if (monitorOn) O << "    __CPROVER_assert(!__frozen || !" << monHits(val(X, CB->getArgOperand(0))) << ", \"MON: const operation writes shared state (raw memcpy)\");\n";
                    O << "    " << (nm.rfind("llvm.memcpy", 0) == 0 ? "memcpy" : "memmove") << "(" << val(X, CB->getArgOperand(0)) << ", " << val(X, CB->getArgOperand(1)) << ", " << val(X, CB->getArgOperand(2)) << ");\n";
                } else if (nm.rfind("llvm.memset", 0) == 0) {
                    {
                        Path PD = resolveBytes(X, CB->getArgOperand(0));
                        auto *LEN = dyn_cast<ConstantInt>(CB->getArgOperand(2)); auto *BY = dyn_cast<ConstantInt>(CB->getArgOperand(1));
                        if (PD.ok && LEN && BY && BY->isZero()) {
                            auto fit = [&](Path &P) { for (int g = 0; g < 16 && DL->getTypeAllocSize(P.ty) > LEN->getZExtValue(); ++g) { if (auto *ST = dyn_cast<StructType>(P.ty)) { P.steps.push_back({true, 0, ""}); P.ty = ST->getElementType(0);} else if (auto *AT = dyn_cast<ArrayType>(P.ty)) { P.steps.push_back({false, 0, "0"}); P.ty = AT->getElementType(); } else break; } };
                            fit(PD);
                            if (DL->getTypeAllocSize(PD.ty) == LEN->getZExtValue()) {
                                if (monitorOn && (frozenRoots.count(PD.root) || monitoredGlobal(CB->getArgOperand(0)))) O << "    __CPROVER_assert(!__frozen, \"MON: const operation writes shared state (memset): " << skeleton(PD) << "\");\n";
                                if (PD.ty->isSingleValueType()) O << "    " << pathStr(PD) << " = 0; /* typed memset */\n";
                                else O << "    { static const " << cty(PD.ty) << " z_; " << pathStr(PD) << " = z_; } /* typed memset */\n";
                                continue;
                            }
                        }
                    }
                    if (monitorOn) O << "    __CPROVER_assert(!__frozen || !" << monHits(val(X, CB->getArgOperand(0))) << ", \"MON: const operation writes shared state (raw memset)\");\n";
                    O << "    memset(" << val(X, CB->getArgOperand(0)) << ", " << val(X, CB->getArgOperand(1)) << ", " << val(X, CB->getArgOperand(2)) << ");\n";
                } else if (nm.rfind("llvm.umax", 0) == 0 || nm.rfind("llvm.umin", 0) == 0) {
                    std::string a = val(X, CB->getArgOperand(0)), b = val(X, CB->getArgOperand(1));
                    O << "    " << r << " = " << a << (nm.rfind("llvm.umax", 0) == 0 ? " > " : " < ") << b << " ? " << a << " : " << b << ";\n";
                } else if (nm.rfind("llvm.smax", 0) == 0 || nm.rfind("llvm.smin", 0) == 0) {
                    unsigned w = I.getType()->getIntegerBitWidth();
                    std::string a = val(X, CB->getArgOperand(0)), b = val(X, CB->getArgOperand(1));
                    O << "    " << r << " = " << sext(a, w) << (nm.rfind("llvm.smax", 0) == 0 ? " > " : " < ") << sext(b, w) << " ? " << a << " : " << b << ";\n";
                } else if (nm.rfind("llvm.fmuladd", 0) == 0) {
                    O << "    " << r << " = " << val(X, CB->getArgOperand(0)) << " * " << val(X, CB->getArgOperand(1)) << " + " << val(X, CB->getArgOperand(2)) << ";\n";
                } else if (nm.rfind("llvm.fabs", 0) == 0) {
                    std::string a = val(X, CB->getArgOperand(0)); O << "    " << r << " = " << a << " < 0 ? -" << a << " : " << a << ";\n";
                } else if (nm == "llvm.eh.typeid.for") {
                    int id = tiId(CB->getArgOperand(0));
                    O << "    " << r << " = " << (id == 0 ? 1 : id) << ";\n";
                } else if (nm == "llvm.assume") {
                    O << "    /* llvm.assume dropped */\n";
                } else if (nm == "llvm.trap") {
                    O << "    __CPROVER_assert(0, \"llvm.trap\"); __CPROVER_assume(0);\n";
                } else if (nm == "__cxa_allocate_exception") {
                    O << "    " << r << " = __exc_alloc(" << val(X, CB->getArgOperand(0)) << ");\n";
                } else if (nm == "__cxa_free_exception") {
                } else if (nm == "__cxa_throw") {
                    O << "    __exc_obj = " << val(X, CB->getArgOperand(0)) << "; __exc_type = " << tiId(CB->getArgOperand(1)) << "; __exc_pending = 1;\n";
                    if (II) gotoBlock(X, &B, II->getUnwindDest(), O);
                    else O << "    " << dummyRet(&F) << "\n";
                    continue;
                } else if (nm == "__cxa_begin_catch") {
                    O << "    " << r << " = " << val(X, CB->getArgOperand(0)) << ";\n";
                } else if (nm == "__cxa_end_catch") {
                } else if (nm == "__cxa_rethrow") {
                    O << "    __exc_pending = 1;\n";
                    if (II) gotoBlock(X, &B, II->getUnwindDest(), O);
                    else O << "    " << dummyRet(&F) << "\n";
                    continue;
                } else if (nm == "_ZSt9terminatev" || nm == "__clang_call_terminate") {
                    O << "    __CPROVER_assert(0, \"std::terminate reached\"); __CPROVER_assume(0);\n";
                } else if (nm == "__VERIFIER_assume") {
                    O << "    __CPROVER_assume(" << val(X, CB->getArgOperand(0)) << ");\n";
                } else if (nm == "__VERIFIER_assert") {
                    std::string msg = "assertion";
                    if (auto *GV = dyn_cast<GlobalVariable>(CB->getArgOperand(1)->stripPointerCasts()))
                        if (GV->hasInitializer()) if (auto *CD = dyn_cast<ConstantDataArray>(GV->getInitializer())) msg = CD->getAsCString().str();
                    O << "    __CPROVER_assert(" << val(X, CB->getArgOperand(0)) << ", \"" << msg << "\");\n";
                } else if (nm == "__VERIFIER_reach") {
                    std::string msg = "reach";
                    if (auto *GV = dyn_cast<GlobalVariable>(CB->getArgOperand(0)->stripPointerCasts()))
                        if (GV->hasInitializer()) if (auto *CD = dyn_cast<ConstantDataArray>(GV->getInitializer())) msg = CD->getAsCString().str();
                    O << "    __CPROVER_assert(0, \"REACH: " << msg << "\");\n";
                } else if (nm.rfind("__cxa_guard_", 0) == 0) {
                    O << "    __CPROVER_assert(!__frozen, \"MON: const operation initialises a function-local static (" << nm << ")\");\n";
                    if (!r.empty()) O << "    " << r << " = 0;\n";
                } else if (nm == "__VERIFIER_freeze") {
                    { size_t k = 0; for (auto &r : frozenRoots) O << "    __frozen_obj" << k++ << " = (void*)&" << r << ";\n"; }
                    O << "    __frozen = 1;\n";
                } else if (nm == "__VERIFIER_thaw") {
                    O << "    __frozen = 0;\n";
                } else if (nm == "__VERIFIER_nondet_uint_unlogged") {
                    O << "    " << r << " = nondet_uint(); __ndh = (unsigned long)" << r << ";\n";
                } else if (nm.rfind("__VERIFIER_nondet_", 0) == 0) {
                    O << "    " << r << " = nondet_" << nm.substr(18) << "(); __nd = (unsigned long)" << r << ";\n";
                } else handled = false;
                if (!handled) {
                    std::string callee = Cal ? gname(Cal) : "(" + val(X, CB->getCalledOperand()) + ")";
                    std::string args;
                    for (unsigned k = 0; k < CB->arg_size(); ++k) args += (k ? ", " : "") + val(X, CB->getArgOperand(k));
                    O << "    " << (r.empty() ? "" : r + " = ") << callee << "(" << args << ");\n";
                    if (II) {
                        O << "    if (__exc_pending) {\n";
                        gotoBlock(X, &B, II->getUnwindDest(), O);
                        O << "    }\n";
                    } else if (mayThrow(CB)) {
                        O << "    if (__exc_pending) " << dummyRet(&F) << "\n";
                    }
                }
                if (II) gotoBlock(X, &B, II->getNormalDest(), O);
            } else if (auto *BR = dyn_cast<BranchInst>(&I)) {
                if (BR->isUnconditional()) gotoBlock(X, &B, BR->getSuccessor(0), O);
                else {
                    O << "    if (" << val(X, BR->getCondition()) << ") {\n";
                    gotoBlock(X, &B, BR->getSuccessor(0), O);
                    O << "    } else {\n";
                    gotoBlock(X, &B, BR->getSuccessor(1), O);
                    O << "    }\n";
                }
            } else if (auto *SW = dyn_cast<SwitchInst>(&I)) {
                O << "    switch (" << val(X, SW->getCondition()) << ") {\n";
                for (auto &Cs : SW->cases()) {
                    O << "    case " << Cs.getCaseValue()->getZExtValue() << "U: {\n";
                    gotoBlock(X, &B, Cs.getCaseSuccessor(), O);
                    O << "    }\n";
                }
                O << "    default: {\n";
                gotoBlock(X, &B, SW->getDefaultDest(), O);
                O << "    }\n    }\n";
            } else if (auto *RT = dyn_cast<ReturnInst>(&I)) {
                if (RT->getReturnValue()) O << "    return " << val(X, RT->getReturnValue()) << ";\n";
                else O << "    return;\n";
            } else if (isa<UnreachableInst>(I)) {
                O << "    __CPROVER_assume(0);\n";
            } else if (auto *FN = dyn_cast<UnaryOperator>(&I)) {
                O << "    " << r << " = -" << val(X, FN->getOperand(0)) << ";\n";
            } else {
                errs() << "unsupported instruction: " << I << "\n";
                exit(2);
            }
        }
    }
    O << "  L__cut:; __CPROVER_assume(0);\n";
    { Type *R = F.getReturnType(); if (R->isVoidTy()) O << "    return;\n"; else if (R->isSingleValueType()) O << "    return (" << cty(R) << ")0;\n"; else O << "    { " << cty(R) << " z_; return z_; }\n"; }
    O << "}\n\n";
}

int main(int argc, char **argv) {
    LLVMContext C;
    SMDiagnostic E;
    auto M = parseIRFile(argv[1], E, C);
    if (!M) { E.print(argv[0], errs()); return 1; }
    Function *HF = M->getFunction("harness");
    if (!HF || HF->isDeclaration()) { errs() << "no harness() in module\n"; return 1; }
    // dynamic initialisers of namespace-scope objects run at the start of harness()
    if (GlobalVariable *GC = M->getGlobalVariable("llvm.global_ctors")) {
        std::vector<std::pair<uint64_t, Function *>> ctors;
        if (auto *CA = dyn_cast<ConstantArray>(GC->getInitializer()))
            for (Value *Op : CA->operands()) { auto *CS = cast<ConstantStruct>(Op); if (auto *Fn = dyn_cast<Function>(CS->getOperand(1)->stripPointerCasts())) ctors.push_back({cast<ConstantInt>(CS->getOperand(0))->getZExtValue(), Fn}); }
        std::stable_sort(ctors.begin(), ctors.end(), [](const std::pair<uint64_t, Function *> &a, const std::pair<uint64_t, Function *> &b) { return a.first < b.first; });
        Instruction *IP = &*HF->getEntryBlock().getFirstInsertionPt();
        for (auto &c : ctors) CallInst::Create(c.second->getFunctionType(), c.second, "", IP);
        GC->eraseFromParent();
    }
    for (Function &F : *M) { if (F.isDeclaration() || &F == HF) continue; F.removeFnAttr(Attribute::NoInline); F.removeFnAttr(Attribute::OptimizeNone); F.addFnAttr(Attribute::AlwaysInline); if (!F.hasLocalLinkage() && !F.hasAddressTaken()) F.setLinkage(GlobalValue::InternalLinkage); }
    HF->removeFnAttr(Attribute::OptimizeNone);
    for (int round = 0; round < 3; ++round) {
        LoopAnalysisManager LAM; FunctionAnalysisManager FAM; CGSCCAnalysisManager CGAM; ModuleAnalysisManager MAM;
        PassBuilder PB; PB.registerModuleAnalyses(MAM); PB.registerCGSCCAnalyses(CGAM); PB.registerFunctionAnalyses(FAM); PB.registerLoopAnalyses(LAM); PB.crossRegisterProxies(LAM, FAM, CGAM, MAM);
        ModulePassManager MPM;
        const char *pipe = getenv("LL2C_PASSES") ? getenv("LL2C_PASSES") : "always-inline,globaldce,function(sroa,early-cse,simplifycfg,adce)";
        if (auto Err = PB.parsePassPipeline(MPM, pipe)) { errs() << "bad pipeline\n"; return 1; }
        MPM.run(*M, MAM);
    }
    if (getenv("LL2C_DUMP")) { std::error_code EC; raw_fd_ostream D(getenv("LL2C_DUMP"), EC); M->print(D, nullptr); }
    if (const char *bs = getenv("LL2C_BOUNDS")) { std::stringstream ss(bs); std::string tok; while (std::getline(ss, tok, ',')) { auto e = tok.find('='); if (e == std::string::npos) continue; std::string k = tok.substr(0, e); int v = atoi(tok.c_str() + e + 1); if (k == "default") boundDefault = v; else boundSpec.push_back({k, v}); } }
    DL = &M->getDataLayout();
    std::string body, globals, protos;
    raw_string_ostream OB(body), OG(globals), OP(protos);
    // type-info hierarchy first so that ids are stable
    for (GlobalVariable &G : M->globals())
        if (G.getName().startswith("_ZTI")) tiId(&G);
    for (Function &F : *M) {
        if (F.isDeclaration()) continue;
        emitFunction(F, OB);
    }
    for (Function &F : *M) {
        StringRef n = F.getName();
        if (n.startswith("llvm.") || n.startswith("__VERIFIER") || n.startswith("__cxa") || n == "__gxx_personality_v0" || n == "_ZSt9terminatev") continue;
        FnCtx X;
        std::string sig = cty(F.getReturnType()) + " " + gname(&F) + "(";
        unsigned ai = 0;
        for (Argument &A : F.args()) sig += (ai++ ? ", " : "") + declare(A.getType(), "");
        if (F.arg_size() == 0) sig += "void";
        OP << sig << ");\n";
    }
    for (GlobalVariable &G : M->globals()) {
        StringRef n = G.getName();
        if (n.startswith("_ZTV") && !G.hasInitializer()) { OG << "char *" << gname(&G) << "[8];\n"; continue; }
        Type *T = G.getValueType();
        OG << (G.isConstant() ? "const " : "") << declare(T, gname(&G));
        if (G.hasInitializer()) OG << " = " << constInit(G.getInitializer());
        OG << ";\n";
    }
    OB.flush(); OG.flush(); OP.flush();
    raw_ostream &O = outs();
    O << "#include <stdint.h>\n#include <string.h>\n";
    O << "struct LPAD { uint8_t *f0; uint32_t f1; };\nstatic int __frozen; static void *__frozen_obj0, *__frozen_obj1, *__frozen_obj2, *__frozen_obj3; unsigned long __nd, __ndh;\n";
    O << "static uint8_t *__exc_obj; static int __exc_type; static int __exc_pending;\n";
    O << "static uint8_t __exc_buf[4][64]; static int __exc_k;\n";
    O << "static uint8_t *__exc_alloc(uint64_t n) { __CPROVER_assume(n <= 64 && __exc_k < 4); return __exc_buf[__exc_k++]; }\n";
    O << "uint64_t __undef_u64(void); double __undef_f64(void);\n";
    O << "unsigned nondet_uint(void); int nondet_int(void); unsigned long nondet_ulong(void); double nondet_double(void); _Bool nondet_bool(void);\n";
    // type definitions: collect all struct/array types we named, define in dep order
    std::string tys;
    raw_string_ostream OT(tys);
    // iterate until fixpoint, since defineType may name new types
    std::vector<Type *> all;
    for (auto &kv : tyName) all.push_back(kv.first);
    for (Type *T : all) defineType(T, OT);
    OT.flush();
    for (auto &d : tyDefs) if (d.rfind("@ARR", 0) != 0) O << d << "\n";
    O << tys;
    // exception subtype relation
    O << "static int __exc_parent(int t) { switch (t) {\n";
    for (auto &kv : typeInfoId) {
        auto *G = dyn_cast<GlobalVariable>(kv.first);
        if (!G || !G->hasInitializer()) continue;
        auto *CS = dyn_cast<ConstantStruct>(G->getInitializer());
        if (CS && CS->getNumOperands() == 3) O << "  case " << kv.second << ": return " << tiId(CS->getOperand(2)) << ";\n";
    }
    O << "  default: return -1; } }\n";
    O << "static int __exc_matches(int t, int c) { if (c == 0) return 1; for (int k = 0; k < 6 && t > 0; ++k) { if (t == c) return 1; t = __exc_parent(t); } return 0; }\n";
    O << protos << globals << body;
    if (const char *mp = getenv("LL2C_META")) {
        std::error_code EC; raw_fd_ostream MO(mp, EC);
        std::set<std::string> fns;
        for (Function &F : *M) for (Instruction &I : instructions(F)) for (DILocation *D = I.getDebugLoc().get(); D; D = D->getInlinedAt())
            if (auto *SP = D->getScope()->getSubprogram()) { StringRef fn = SP->getFilename(); if (fn.contains("BaseGraph/")) fns.insert(llvm::demangle(SP->getLinkageName().empty() ? SP->getName().str() : SP->getLinkageName().str())); }
        int mx = 0; for (auto &l : loopMetas) mx = std::max(mx, l.bound);
        auto esc = [](std::string x) { std::string r; for (char c : x) { if (c == '"' || c == '\\') r += '\\'; r += c; } return r; };
        MO << "{\"max_bound\": " << mx << ", \"raw_pointer_accesses\": " << rawDerefs << ", \"loops\": [";
        for (size_t i = 0; i < loopMetas.size(); ++i) MO << (i ? ", " : "") << "{\"where\": \"" << esc(loopMetas[i].func) << "\", \"bound\": " << loopMetas[i].bound << "}";
        MO << "], \"functions\": [";
        size_t i = 0; for (auto &f : fns) MO << (i++ ? ", " : "") << "\"" << esc(f) << "\"";
        MO << "]}\n";
    }
    return 0;
}
